# generates the 3-level paged NFKD table (plane -> page -> offset) from CPython unicodedata
import unicodedata, json, sys
def build(fn, empty):
    planes=[]
    for pl in range(17):
        pages=[]
        for pg in range(256):
            base=pl*65536+pg*256
            ent=[fn(base+o) for o in range(256)]
            pages.append(ent if any(e!=empty for e in ent) else [])
        planes.append(pages if any(pages) else [])
    return planes
def dec(cp):
    ch=chr(cp)
    if unicodedata.category(ch) in ('Cn','Cs'): return []
    d=unicodedata.normalize('NFKD',ch)
    return [ord(x) for x in d] if d!=ch else []
def ccc(cp):
    ch=chr(cp)
    if unicodedata.category(ch) in ('Cn','Cs'): return 0
    return unicodedata.combining(ch)
json.dump({"unidata":unicodedata.unidata_version,"dec":build(dec,[]),"ccc":build(ccc,0)}, open(sys.argv[1],"w"), separators=(',',':'))

# pools of code points assigned in this Unicode version, used by the harness to build inputs
def pools():
    dec, marks, letters = [], [], []
    for cp in range(0x110000):
        ch = chr(cp)
        cat = unicodedata.category(ch)
        if cat in ('Cn', 'Cs', 'Co'):
            continue
        if unicodedata.normalize('NFKD', ch) != ch:
            dec.append(cp)
        c = unicodedata.combining(ch)
        if c:
            marks.append([cp, c])
        elif cat[0] == 'L' and unicodedata.normalize('NFKD', ch) == ch and cp > 127 and (cp % 7 == 0):
            letters.append(cp)
    return {"unidata": unicodedata.unidata_version, "decomposable": dec, "marks": marks, "letters": letters}
if len(sys.argv) > 2:
    json.dump(pools(), open(sys.argv[2], "w"), separators=(',', ':'))
