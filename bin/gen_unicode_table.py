# generates the 3-level paged NFKD table (plane -> page -> offset) from CPython unicodedata
import unicodedata, json, sys
def build(fn, empty):
    planes=[]
    for pl in range(17):
        pages=[]
        for pg in range(256):
            base=pl*65536+pg*256
            ent=[fn(base+o) for o in range(256)]
            pages.append(ent if any(e!=empty for e in ent) else [])
        planes.append(pages if any(pages) else [])
    return planes
def dec(cp):
    ch=chr(cp)
    if unicodedata.category(ch) in ('Cn','Cs'): return []
    d=unicodedata.normalize('NFKD',ch)
    return [ord(x) for x in d] if d!=ch else []
def ccc(cp):
    ch=chr(cp)
    if unicodedata.category(ch) in ('Cn','Cs'): return 0
    return unicodedata.combining(ch)
json.dump({"unidata":unicodedata.unidata_version,"dec":build(dec,[]),"ccc":build(ccc,0)}, open(sys.argv[1],"w"), separators=(',',':'))
