#!/usr/bin/env python3
"""Shared machinery of the bip39 verification driver (bin/check).

  build the harness from /repo's working tree (-tags verif)
  run TLC on a design-level configuration (MC_*.tla) and read its statistics
  record a trace from the real code (harness) and validate it with Trace.tla,
  sharded over single-worker TLC processes
  confirm failures by re-executing them, write replay + evidence files

Exit codes of a check: 0 held, 1 violation (VIOLATION line printed),
2 infrastructure trouble (never a verdict).
"""
import json, os, re, shutil, subprocess, sys, tempfile, time, atexit, hashlib
from concurrent.futures import ThreadPoolExecutor

V = os.path.dirname(os.path.dirname(os.path.abspath(__file__)))
REPO = os.environ.get("VERIF_REPO", "/repo")
SPEC = os.path.join(V, "spec")
NCPU = min(16, os.cpu_count() or 4)
GOENV = dict(os.environ, GOFLAGS="-mod=mod", GOPROXY="off", GOSUMDB="off", GOTOOLCHAIN="local")

_scratch = []


def scratch(prefix="verif-"):
    base = os.environ.get("VERIF_TMP") or tempfile.gettempdir()
    d = tempfile.mkdtemp(prefix=prefix, dir=base)
    _scratch.append(d)
    return d


@atexit.register
def _cleanup():
    if os.environ.get("VERIF_KEEP"):
        print("scratch kept:", _scratch, file=sys.stderr)
        return
    for d in _scratch:
        shutil.rmtree(d, ignore_errors=True)


class Infra(Exception):
    """Infrastructure trouble: exit 2, never a verdict."""


def log(*a):
    print(*a, file=sys.stderr, flush=True)


# --------------------------------------------------------------------------
# building

def ensure_overrides():
    cls = os.path.join(V, "build", "classes", "verif", "Prims.class")
    srcs = [os.path.join(V, "overrides", "verif", f) for f in os.listdir(os.path.join(V, "overrides", "verif"))]
    if os.path.exists(cls) and all(os.path.getmtime(cls) >= os.path.getmtime(s) for s in srcs):
        return
    os.makedirs(os.path.join(V, "build", "classes"), exist_ok=True)
    r = subprocess.run(["javac", "-cp", "/opt/veriftools/tla/tla2tools.jar", "-d", os.path.join(V, "build", "classes")] + srcs,
                       capture_output=True, text=True)
    if r.returncode != 0:
        raise Infra("javac failed: " + r.stderr)


def build_harness(race=False, pkg=".", name="harness", goarch=None, tags=None, goos=None):
    """go build the harness against REPO's current working tree, hooks enabled."""
    out = os.path.join(scratch("verif-bin-"), name + (goarch or "") + (tags or ""))
    hdir = os.path.join(V, "harness")
    work = hdir
    if REPO != "/repo":  # self-test against a scratch copy: private module copy with its own replace
        work = os.path.join(scratch("verif-hsrc-"), "harness")
        shutil.copytree(hdir, work)
        gm = open(os.path.join(work, "go.mod")).read().replace("=> /repo", "=> " + REPO)
        open(os.path.join(work, "go.mod"), "w").write(gm)
    try:
        shutil.copy(os.path.join(REPO, "go.sum"), os.path.join(work, "go.sum"))
    except OSError:
        pass
    cmd = ["go", "build", "-tags", "verif" + ("," + tags if tags else "")] + (["-race"] if race else []) + ["-o", out, pkg]
    benv = dict(GOENV, GOARCH=goarch, CGO_ENABLED="0") if goarch else dict(GOENV)
    if goos:
        benv["GOOS"] = goos
    r = subprocess.run(cmd, cwd=work, env=benv, capture_output=True, text=True)
    if r.returncode != 0:
        raise Infra("harness build failed (does /repo compile with -tags verif?):\n" + r.stderr[-3000:])
    return out


# --------------------------------------------------------------------------
# TLC

def spec_dir():
    """a scratch directory with the specification and its data linked in"""
    d = scratch("verif-tlc-")
    for f in os.listdir(SPEC):
        p = os.path.join(SPEC, f)
        if os.path.isfile(p):
            os.symlink(p, os.path.join(d, f))
    for f in os.listdir(os.path.join(SPEC, "data")):
        os.symlink(os.path.join(SPEC, "data", f), os.path.join(d, f))
    return d


def tlc(workdir, module, cfg, args=(), timeout=900, workers=1, xmx="3g", xss="512m", env_extra=None):
    ensure_overrides()
    meta = os.path.join(workdir, "meta-" + module + "-" + str(time.time_ns()))
    cmd = ["timeout", str(timeout), os.path.join(V, "bin", "tlcx"), "-noGenerateSpecTE", "-metadir", meta,
           "-workers", str(workers), "-config", cfg] + list(args) + [module]
    env = dict(os.environ, TLC_XMX=xmx, TLC_XSS=xss)
    if env_extra:
        env.update(env_extra)
    t0 = time.time()
    r = subprocess.run(cmd, cwd=workdir, capture_output=True, text=True, env=env)
    shutil.rmtree(meta, ignore_errors=True)
    return r.returncode, r.stdout + r.stderr, time.time() - t0


def write_cfg(workdir, name, text):
    p = os.path.join(workdir, name)
    with open(p, "w") as f:
        f.write(text)
    return name


STAT_RE = re.compile(r"(\d+) states generated, (\d+) distinct states found")


def run_mc(module, cfg_text, workers=None, timeout=900, expect_violation=None, args=()):
    """Run a design-level configuration.  Returns dict(states, distinct, wall, out).
    expect_violation=None: must pass; = invariant name: must be violated (negative control)."""
    d = spec_dir()
    cfg = write_cfg(d, module + "_run.cfg", cfg_text)
    rc, out, wall = tlc(d, module + ".tla", cfg, workers=workers or NCPU, timeout=timeout, xmx="8g", args=args)
    m = STAT_RE.findall(out)
    res = dict(module=module, wall_s=round(wall, 1), states=int(m[-1][0]) if m else 0, distinct=int(m[-1][1]) if m else 0)
    violated = re.search(r"Invariant (\S+) is violated|Action property (\S+) is violated|Temporal properties were violated|Temporal property (\S+) was violated", out)
    if expect_violation is None:
        if "Model checking completed. No error has been found." not in out:
            if violated:
                res["violated"] = violated.group(0)
                res["out"] = out[-4000:]
                return res
            raise Infra("TLC failed on %s (rc=%d):\n%s" % (module, rc, out[-3000:]))
    else:
        if not violated or (expect_violation not in violated.group(0)):
            raise Infra("negative control %s did not violate %s:\n%s" % (module, expect_violation, out[-2000:]))
        res["control_violated"] = expect_violation
    return res


# --------------------------------------------------------------------------
# traces

def run_harness(binary, args, timeout=1800, env_extra=None):
    env = dict(os.environ, VERIF_DATA=os.path.join(SPEC, "data"), GORACE="atexit_sleep_ms=0")
    if env_extra:
        env.update(env_extra)
    r = subprocess.run(["timeout", str(timeout), binary] + args, capture_output=True, text=True, env=env)
    if r.returncode != 0:
        # a harness process that the Go runtime ended inside the library (a panic on a goroutine the library started,
        # unsynchronised map access, out of memory in a library frame) is behaviour of the real code: recorded as a
        # Crash event at the end of what the process had written; anything else is infrastructure trouble
        lib = "github.com/islishude/bip39." in r.stderr and ("fatal error" in r.stderr or "panic:" in r.stderr)
        out = args[args.index("-out") + 1] if "-out" in args else None
        if lib and out:
            lines = read_trace(out) if os.path.exists(out) else []
            if lines and not lines[-1].endswith("\n"):
                lines = lines[:-1]
            if not lines:
                lines = [json.dumps({"op": "Reset", "fresh_process": True, "seed": 0, "tier": "quick", "prop": ""}, separators=(",", ":")) + "\n"]
            lines.append(json.dumps({"op": "Crash", "panicked": True, "timeout": False, "conc": True,
                                     "panic": [ord(c) for c in r.stderr[:1200] if ord(c) < 0x110000]}) + "\n")
            with open(out, "w") as f:
                f.writelines(lines)
            return r
        raise Infra("harness %s failed rc=%d: %s" % (" ".join(args[:4]), r.returncode, r.stderr[:600] + " ... " + r.stderr[-1200:]))
    return r


def read_trace(path):
    with open(path) as f:
        return [ln for ln in f if ln.strip()]


def shard_lines(lines, k):
    """cut into <= k contiguous shards, only at Reset / Cut lines"""
    n = len(lines)
    if n == 0:
        return []
    cuts = [i for i, ln in enumerate(lines) if i == 0 or '"op":"Reset"' in ln or '"op":"Cut"' in ln]
    target = max(1, n // k)
    shards, start = [], 0
    for c in cuts[1:]:
        if c - start >= target and len(shards) < k - 1:
            shards.append((start, c))
            start = c
    shards.append((start, n))
    return shards


class Verdict:
    def __init__(self):
        self.lines = 0
        self.nbad = 0
        self.bad = []      # (global line (1-based), prop)
        self.known = []
        self.drift = []
        self.infra = []
        self.cover = {}
        self.events = 0
        self.tlc_states = 0
        self.wall = 0.0


def _validate_shard(lines, lo, hi, props, idx, timeout):
    d = spec_dir()
    with open(os.path.join(d, "trace.ndjson"), "w") as f:
        f.writelines(lines[lo:hi])
    cfg = write_cfg(d, "Trace_run.cfg", "SPECIFICATION TraceSpec\nCONSTANTS BytesMode = \"padded\" Props = {%s}\nCHECK_DEADLOCK FALSE\n" %
                    ", ".join('"%s"' % p for p in props))
    rc, out, wall = tlc(d, "Trace.tla", cfg, workers=1, timeout=timeout, xmx="2g", env_extra={"TLC_JVM": "shard"})
    m = re.search(r'<<"VERDICT", "(.*)">>', out)
    if not m:
        k = out.find("Error:")
        raise Infra("trace validation produced no verdict (shard %d, lines %d..%d, rc=%d):\n%s\n...\n%s" % (idx, lo + 1, hi, rc, out[max(k, 0):max(k, 0) + 1500] if k >= 0 else "", out[-600:]))
    v = json.loads(json.loads('"' + m.group(1) + '"'))
    if v["lines"] != hi - lo:
        raise Infra("trace validation consumed %d of %d lines (shard %d)" % (v["lines"], hi - lo, idx))
    sm = STAT_RE.findall(out)
    v["_states"] = int(sm[-1][1]) if sm else 0
    v["_lo"] = lo
    shutil.rmtree(d, ignore_errors=True)
    return v


def validate(lines, props, shards=None, timeout=1700):
    """Validate trace lines against Trace.tla for the given properties."""
    t0 = time.time()
    k = shards or NCPU
    parts = shard_lines(lines, k)
    V_ = Verdict()
    with ThreadPoolExecutor(max_workers=NCPU) as ex:
        futs = [ex.submit(_validate_shard, lines, lo, hi, props, i, timeout) for i, (lo, hi) in enumerate(parts)]
        res = [f.result() for f in futs]
    for v in res:
        lo = v["_lo"]
        V_.lines += v["lines"]
        V_.nbad += v["nbad"]
        V_.bad += [(lo + b[0], b[1]) for b in v["bad"]]
        V_.known += [(lo + b[0], b[1]) for b in v["known"]]
        V_.drift += [(lo + b[0], b[1]) for b in v["drift"]]
        V_.infra += [(lo + b[0], b[1]) for b in v["infra"]]
        for kx, c in v["cover"].items():
            V_.cover.setdefault(kx, set()).update(c)
        V_.events += v["cnt"]["events"]
        V_.tlc_states += v["_states"]
    V_.cover = {k: len(s) for k, s in V_.cover.items()}
    V_.bad.sort()
    V_.wall = time.time() - t0
    return V_


def unit_around(lines, line_no):
    """the lines from the last Reset/Cut at or before line_no (1-based) up to the next one"""
    i = line_no - 1
    lo = i
    while lo > 0 and not ('"op":"Reset"' in lines[lo] or '"op":"Cut"' in lines[lo]):
        lo -= 1
    hi = i + 1
    while hi < len(lines) and not ('"op":"Reset"' in lines[hi] or '"op":"Cut"' in lines[hi]):
        hi += 1
    return lo, hi


# --------------------------------------------------------------------------
# evidence

def short(ev, limit=400):
    s = json.dumps(ev, ensure_ascii=False)
    return ev if len(s) <= limit else json.loads(json.dumps({k: (v if len(json.dumps(v)) < 120 else "<%d items>" % len(v) if isinstance(v, list) else "...") for k, v in ev.items()}))


def text_of(units):
    try:
        return "".join(chr(u) if u >= 0 else "\\x%02x" % (-1 - u) for u in units)
    except Exception:
        return str(units)


def write_evidence(prop, tier, seed, coverage, wall, violations, assumptions):
    edir = os.environ.get("VERIF_EVIDENCE_DIR") or os.path.join(V, "evidence")
    os.makedirs(edir, exist_ok=True)
    ev = dict(property_id=prop, tier=tier, seed=seed, level="model_checking", coverage=coverage,
              assumptions=assumptions, wall_s=round(wall, 1), violations=violations)
    p = os.path.join(edir, prop + ".json")
    with open(p + ".tmp", "w") as f:
        json.dump(ev, f, indent=1, ensure_ascii=False)
    os.replace(p + ".tmp", p)
    return p
