"""Per-property recipes: which design-level TLC configurations are run, how
real executions are recorded, which events the property speaks about."""
import json
import shutil, os, re
import vlib
from vlib import Infra

SIZES = (16, 20, 24, 28, 32)


# --------------------------------------------------------------------------
# design-level configurations

def mc_codec(sweeps):
    def f(tier, seed):
        sizes = "{}" if not sweeps else ("{16, 32}" if tier == "quick" else "{16, 20, 24, 28, 32}")
        cfg = ('SPECIFICATION Spec\nCONSTANTS BytesMode = "padded" Buckets = 16 SweepSizes = %s\n'
               'INVARIANTS EncodeAgrees RoundTrip GenValidates AcceptSet GatesAgree\nCHECK_DEADLOCK FALSE\n' % sizes)
        res = [vlib.run_mc("MC_Codec", cfg, timeout=1500)]
        if tier == "thorough" and sweeps:   # negative control: the pinned commit's Bytes() (finding F1) must be a counterexample
            cfg2 = ('SPECIFICATION Spec\nCONSTANTS BytesMode = "minimal" Buckets = 16 SweepSizes = {16}\n'
                    'INVARIANTS GenValidates AcceptSet\nCHECK_DEADLOCK FALSE\n')
            r = vlib.run_mc("MC_Codec", cfg2, timeout=600, expect_violation="is violated")
            r["module"] = "MC_Codec[F1 control]"
            res.append(r)
        return res
    return f


def mc_simple(module, consts, invariants, control=None):
    """a one-configuration design-level check; control = (consts, invariant) that must be violated"""
    def f(tier, seed):
        c = consts(tier) if callable(consts) else consts
        cfg = "SPECIFICATION Spec\n%sINVARIANTS %s\nCHECK_DEADLOCK FALSE\n" % ("CONSTANTS %s\n" % c if c else "", " ".join(invariants))
        res = [vlib.run_mc(module, cfg, timeout=1500)]
        if control:
            cfg2 = "SPECIFICATION Spec\nCONSTANTS %s\nINVARIANTS %s\nCHECK_DEADLOCK FALSE\n" % (control[0], control[1])
            r = vlib.run_mc(module, cfg2, timeout=600, workers=1, expect_violation=control[1])
            r["module"] = module + "[negative control]"
            res.append(r)
        return res
    return f


MC_LISTS = mc_simple("MC_Lists", None, ["WellFormedList", "FromCanonicalFile", "Vectors"])
MC_GATES = mc_simple("MC_Gates", 'BytesMode = "padded" Window = 5000', ["EntGateAgrees", "CountGateAgrees", "SizesCorrespond"])
def mc_kdf(tier, seed):
    """thorough tier: the 2048-iteration structure of PBKDF2 evaluated from the TLA+ definition (only HMAC overridden)"""
    if tier != "thorough":
        return []
    cfg = "SPECIFICATION Spec\nCONSTANTS Seed0 = %d NCases = 16\nINVARIANTS SeedByDefinitionAgrees\nCHECK_DEADLOCK FALSE\n" % (seed % 1000)
    return [vlib.run_mc("MC_Kdf", cfg, timeout=3000)]


def proof_gates(tier, seed):
    """the gate lemmas for all integers, by the TLA+ proof system"""
    d = vlib.scratch("verif-tlaps-")
    vlib.shutil.copy(os.path.join(vlib.SPEC, "GateLemmas.tla"), d)
    import subprocess as sp, time as _t
    t0 = _t.time()
    r = sp.run(["timeout", "600", "tlapm", "--threads", "8", "GateLemmas.tla"], cwd=d, capture_output=True, text=True)
    out = r.stdout + r.stderr
    m = re.search(r"All (\d+) obligations? proved", out)
    if not m:
        raise Infra("tlapm did not prove GateLemmas.tla:\n" + out[-1500:])
    n = int(m.group(1))
    return dict(module="GateLemmas[TLAPS: %d obligations proved]" % n, states=n, distinct=n, wall_s=round(_t.time() - t0, 1))


MC_UNICODE = mc_simple("MC_Unicode", None, ["DecompositionIsNormal", "MarksAreOrdered", "SeparatorsNormalise"])
MC_NAMES = mc_simple("MC_Names", 'StringerTable = "full10" Window = 70000', ["NoPanic", "NamesAgree"],
                     control=('StringerTable = "stale9" Window = 12', "NamesAgree"))


# --------------------------------------------------------------------------
# recording

_bin32 = {}


def harness32():
    if "b" not in _bin32:
        _bin32["b"] = vlib.build_harness(goarch="386")
    return _bin32["b"]


def harness_purego():
    if "p" not in _bin32:
        _bin32["p"] = vlib.build_harness(tags="purego")
    return _bin32["p"]


def purego_lines(prop, tier, seed):
    """the same generator with library and harness built under the `purego` tag (the portable code paths that
    assembly-free builds and targets outside the usual list get); the quick tier validates every third unit"""
    lines, _ = run_scenario(harness_purego(), ["gen", "-prop", prop, "-tier", tier, "-seed", str(seed + 64)], None, timeout=1800)
    return subsample_units(lines, tier, seed + 1)


def subsample_units(lines, tier, seed):
    if tier != "quick":
        return lines
    units, cur = [], []
    for ln in lines:
        if ('"op":"Reset"' in ln or '"op":"Cut"' in ln) and cur:
            units.append(cur)
            cur = []
        cur.append(ln)
    units.append(cur)
    keep, k = [], seed % 3
    for i, u in enumerate(units):
        if i % 3 == k or any('"panicked":true' in x or '"timeout":true' in x or '"op":"Crash"' in x for x in u):
            keep += u
        elif '"op":"Reset"' in u[0]:
            keep.append(u[0])
    return keep


def arch32_lines(prop, tier, seed):
    """the same generator in a 32-bit build of library and harness (GOARCH=386: int, uint and uintptr are 32 bits wide);
    units (Cut to Cut) are self-contained, the quick tier validates every third of them"""
    d = vlib.scratch("verif-tr-")
    out = os.path.join(d, "trace32.ndjson")
    # (this pass also runs on a CPU count that is no power of two; a process that dies inside the library - 2 GB of
    # address space are soon used up - is recorded as a Crash event)
    lines, _ = run_scenario(harness32(), ["gen", "-prop", prop, "-tier", tier, "-seed", str(seed + 32)], None, timeout=1800,
                            env_extra={"GOMAXPROCS": str([3, 5, 6, 7][seed % 4])})
    if tier != "quick":
        return lines
    # ... and every unit in which a call panicked or hung
    units, cur = [], []
    for ln in lines:
        if ('"op":"Reset"' in ln or '"op":"Cut"' in ln) and cur:
            units.append(cur)
            cur = []
        cur.append(ln)
    units.append(cur)
    keep, k = [], seed % 3
    for i, u in enumerate(units):
        if i % 3 == k or any('"panicked":true' in x or '"timeout":true' in x for x in u):
            keep += u
        elif '"op":"Reset"' in u[0]:
            keep.append(u[0])
    return keep


def cold_lines(binary, lang, seed, rnd):
    return run_scenario(binary, ["cold", "-lang", str(lang), "-seed", str(seed), "-n", str(rnd)],
                        {"cold": True, "cold_lang": lang, "cold_seed": seed, "cold_round": rnd}, timeout=300,
                        env_extra={"GOMAXPROCS": str([16, 3, 8, 5, 4, 7, 6, 2, 12][rnd % 9])})[0]


def cold_start(binary, tier, seed):
    """fresh processes whose first validations are made by 24 goroutines arriving microseconds apart (lazy table
    construction under way): what each call returned is validated like a sequential call"""
    lines = []
    for rnd in range(3 if tier == "quick" else 40):
        for lang in range(10):
            lines += cold_lines(binary, lang, seed, rnd)
    return lines


def run_scenario(binary, args, cut_fields=None, timeout=900, race=False, env_extra=None):
    """one harness scenario in a fresh process -> (event lines, race detector text).  A process that the Go runtime
    ends inside the library (unsynchronised map access, a panic on another goroutine, out of memory) is behaviour
    of the real code: recorded as a Crash event at the end of the unit (the unit's opening lines are written here
    when the process died before its buffered output reached the file)."""
    d = vlib.scratch("verif-sc-")
    out, rl = os.path.join(d, "t.ndjson"), os.path.join(d, "race")
    env = dict(os.environ, VERIF_DATA=os.path.join(vlib.SPEC, "data"),
               GORACE=("log_path=%s atexit_sleep_ms=0 halt_on_error=0" % rl) if race else "atexit_sleep_ms=0")
    if env_extra:
        env.update(env_extra)
    r = subprocess.run(["timeout", str(timeout), binary] + args + ["-out", out], capture_output=True, text=True, env=env)
    lines = vlib.read_trace(out) if os.path.exists(out) else []
    if lines and not lines[-1].endswith("\n"):
        lines = lines[:-1]
    cf = dict(cut_fields or {})
    if r.returncode not in ((0, 66) if race else (0,)):
        if "github.com/islishude/bip39" in r.stderr and ("fatal error" in r.stderr or "panic:" in r.stderr):
            if not any('"op":"Cut"' in x for x in lines):
                lines = [json.dumps({"op": "Reset", "fresh_process": True, "seed": 0, "tier": "quick", "prop": ""}, separators=(",", ":")) + "\n",
                         json.dumps(dict({"op": "Cut", "source": "os"}, **cf), separators=(",", ":")) + "\n"]
            lines.append(json.dumps({"op": "Crash", "conc": True, "panicked": True, "timeout": False,
                                     "panic": [ord(c) for c in r.stderr[:1200] if ord(c) < 0x110000]}) + "\n")
        else:
            raise Infra("harness %s failed rc=%d: %s" % (args[0], r.returncode, r.stderr[-1500:]))
    if cf:
        first = next(iter(cf))
        extra = json.dumps(cf, separators=(",", ":"))[1:-1]
        lines = [x.replace('"op":"Cut"', '"op":"Cut",' + extra, 1) if ('"op":"Cut"' in x and '"%s"' % first not in x) else x for x in lines]
    text = ""
    if race:
        text = "".join(open(os.path.join(d, f), errors="replace").read() for f in sorted(os.listdir(d)) if f.startswith("race"))
    vlib.shutil.rmtree(d, ignore_errors=True)
    return lines, text


def concuni_lines(binary, tier, seed, runs=None):
    """callers holding different texts in non-normal forms validate and derive at the same time, in fresh processes"""
    lines = []
    for k in range(runs or (6 if tier == "quick" else 40)):
        t = "quick" if tier == "quick" or k % 8 else "thorough"
        # the unit is marked so that a failure in it is confirmed by running the scenario again
        ls, _ = run_scenario(binary, ["concuni", "-tier", t, "-seed", str(seed * 100 + k)], {"concuni_seed": seed * 100 + k, "concuni_tier": t})
        lines += ls
    return lines


def batch_lines(binary, tier, seed):
    """batch generation from one caller buffer cut into chunks (sequential, then one goroutine per chunk)"""
    return run_scenario(binary, ["batch", "-tier", tier, "-seed", str(seed)], {"batch_seed": seed, "batch_tier": tier})[0]


def concheck_lines(binary, tier, seed):
    """validations overlapping in time on inputs chosen so that a leak between calls changes a verdict"""
    return run_scenario(binary, ["concheck", "-tier", tier, "-seed", str(seed)], {"concheck_seed": seed, "concheck_tier": tier})[0]


def overlap_lines(binary, tier, seed):
    """calls overlapping in time on one injected source (held inside Read; unsynchronised hammer)"""
    return run_scenario(binary, ["overlap", "-tier", tier, "-seed", str(seed)], {"overlap_seed": seed, "overlap_tier": tier})[0]


def jswasm_sample_lines(native_lines, prop, tier, seed):
    """a few whole groups of the recorded derivations / validations (those with Latin-1 letters and signs first: the code
    points a byte-oriented shortcut is most likely to mishandle) re-executed in the js/wasm build under Node and validated
    like the rest (seeded change C11j lives only in that build).  PBKDF2 under wasm costs about 120 ms per seed, hence a
    sample.  Skipped (empty) when Node or go_js_wasm_exec is missing."""
    jr = jswasm_runner()
    if jr is None:
        return []
    # a group = a maximal run of consecutive events with one group id (ids are reused from family to family)
    runs, last = [], None
    for x in native_lines:
        if '"group"' not in x or '"build"' in x or '"conc":true' in x:
            last = None
            continue
        e = json.loads(x)
        if e.get("op") in ("ToSeed", "Check") and not e.get("panicked"):
            key = (e["op"], json.dumps(e["group"]))
            if key != last:
                runs.append([])
                last = key
            runs[-1].append(e)
        else:
            last = None
    groups = {}
    for k, evs in enumerate(runs):          # renumbered: unique within the js/wasm unit
        for e in evs:
            e["group"] = 900000 + k
        groups[k] = evs
    if not groups:
        return []
    def latin1(evs):
        return any(isinstance(u, int) and 0xA0 <= u <= 0xFF for e in evs for f in ("m", "p", "in") for u in (e.get(f) or []))
    ids = sorted(groups)
    lat = [g for g in ids if latin1(groups[g])]
    rng = random.Random(seed * 31 + 7)
    k = 3 if tier == "quick" else 40
    pick = rng.sample(lat, min(k, len(lat))) + rng.sample(ids, min(k, len(ids)))
    unit = [e for g in dict.fromkeys(pick) for e in groups[g]][:(60 if tier == "quick" else 1500)]
    d = vlib.scratch("verif-js-")
    path = os.path.join(d, "js_replay.json")
    json.dump({"unit": unit}, open(path, "w"))
    lines, _ = run_scenario(jr[0], [jr[1], "replay", "-arg", path], None, timeout=900)
    out = []
    for x in lines:
        e = json.loads(x)
        e["build"] = "jswasm"
        out.append(json.dumps(e, separators=(",", ":")) + "\n")
    return out


def gen_recorder(prop, arch32=True, cold=False, concuni=False, batch=False, concheck=False):
    def rec(binary, tier, seed):
        d = vlib.scratch("verif-tr-")
        out = os.path.join(d, "trace.ndjson")
        vlib.run_harness(binary, ["gen", "-prop", prop, "-tier", tier, "-seed", str(seed), "-out", out])
        lines = vlib.read_trace(out)
        if arch32:
            lines += arch32_lines(prop, tier, seed)
            lines += purego_lines(prop, tier, seed)
        if cold:
            lines += cold_start(binary, tier, seed)
        if concuni:
            lines += jswasm_sample_lines(lines, prop, tier, seed)
            lines += concuni_lines(binary, tier, seed)
        if batch:
            lines += batch_lines(binary, tier, seed)
        if concheck:
            lines += concheck_lines(binary, tier, seed)
        if prop in ("C08", "C01"):
            lines += golden_tool_lines(binary)      # `make update-wordlist` on the canonical upstream reproduces the lists
        if prop == "C08":
            # the whole index cover once more in a process whose CPU count is not a power of two (tables built in
            # parallel pieces must still be whole)
            for procs in ([[5, 7, 3, 6][seed % 4]] if tier == "quick" else [3, 5, 6, 7]):
                out3 = os.path.join(d, "trace-p%d.ndjson" % procs)
                vlib.run_harness(binary, ["gen", "-prop", prop, "-tier", "quick", "-seed", str(seed + procs), "-out", out3], env_extra={"GOMAXPROCS": str(procs)})
                lines += vlib.read_trace(out3)
        return lines, sum(1 for x in lines if '"op":"Reset"' in x), {}
    return rec


def plain_replay(prop, path, binary):
    # what a call does may depend on when the collector runs: a unit that does not fail again at once is re-executed
    # twice more before the failure counts as not reproduced
    for attempt in range(3):
        lines, _ = run_scenario(binary, ["replay", "-arg", path], None, timeout=1800)     # (a death inside the library is a Crash event)
        v = vlib.validate(lines, [prop], shards=1 if len(lines) < 3000 else None)
        if v.infra:
            raise Infra("replay trace unusable: %s" % v.infra[:3])
        mine = [b for b in v.bad if b[1] == prop]
        if mine:
            break
    return (len(mine) == 0, "re-executed %d events%s, %d failing" % (len(lines), " (%d times)" % (attempt + 1) if attempt else "", len(mine)))


def cold_replay(prop):
    """a failure recorded in a cold concurrent start depends on the schedule: fresh processes of the same kind are
    started again (up to 400) until one shows a failing call; everything else is re-executed call by call"""
    def rp(path, binary):
        unit = json.load(open(path))["unit"]
        cut = unit[0] if unit else {}
        if any(e.get("build") == "jswasm" for e in unit):
            jr = jswasm_runner()
            if jr is None:
                raise Infra("js/wasm replay: node or go_js_wasm_exec not available")
            d = vlib.scratch("verif-js-")
            p2 = os.path.join(d, "js_replay.json")
            json.dump({"unit": [e for e in unit if e.get("op") in ("ToSeed", "Check")]}, open(p2, "w"))
            lines, _ = run_scenario(jr[0], [jr[1], "replay", "-arg", p2], None, timeout=900)
            v = vlib.validate(lines, [prop], shards=1)
            if v.infra:
                raise Infra("replay trace unusable: %s" % v.infra[:3])
            mine = [b for b in v.bad if b[1] == prop]
            return (len(mine) == 0, "re-executed the unit's calls in the js/wasm build under node: %d events, %d failing" % (len(lines), len(mine)))
        if "concuni_seed" in cut:
            tried = 0
            for batch in range(10):
                lines = concuni_lines(binary, cut["concuni_tier"], cut["concuni_seed"] // 100 + batch, runs=6)
                tried += 6
                v = vlib.validate(lines, [prop], shards=6)
                if v.infra:
                    raise Infra("replay trace unusable: %s" % v.infra[:3])
                mine = [b for b in v.bad if b[1] == prop]
                if mine:
                    return (False, "concurrent callers with texts in non-normal forms, %d fresh processes: %d failing calls" % (tried, len(mine)))
            return (True, "concurrent callers with texts in non-normal forms, %d fresh processes, no failing call" % tried)
        k = json.load(open(path)).get("failing_event", 0)
        if 0 < k <= len(unit) and unit[k - 1].get("op") == "Gen":
            lines = golden_tool_lines(binary)
            v = vlib.validate(lines, [prop], shards=1)
            mine = [b for b in v.bad if b[1] == prop]
            return (len(mine) == 0, "the generator run again on the canonical lists: %d Gen events, %d failing" % (sum(1 for x in lines if '"op":"Gen"' in x), len(mine)))
        if "concheck_seed" in cut:
            for attempt in range(6):
                lines = concheck_lines(binary, cut["concheck_tier"], cut["concheck_seed"] + attempt)
                v = vlib.validate(lines, [prop], shards=2)
                if v.infra:
                    raise Infra("replay trace unusable: %s" % v.infra[:3])
                mine = [b for b in v.bad if b[1] == prop]
                if mine:
                    return (False, "overlapping validations run again (%d times): %d failing observations" % (attempt + 1, len(mine)))
            return (True, "overlapping validations run again 6 times, no failing observation")
        if "batch_seed" in cut:
            for attempt in range(10):
                lines = batch_lines(binary, cut["batch_tier"], cut["batch_seed"] + attempt)
                v = vlib.validate(lines, [prop], shards=4)
                if v.infra:
                    raise Infra("replay trace unusable: %s" % v.infra[:3])
                mine = [b for b in v.bad if b[1] == prop]
                if mine:
                    return (False, "batch generation from one buffer run again (%d times): %d failing calls" % (attempt + 1, len(mine)))
            return (True, "batch generation from one buffer run again 10 times, no failing call")
        if not cut.get("cold"):
            return plain_replay(prop, path, binary)
        tried = 0
        for batch in range(100):
            lines = []
            for k in range(4):
                # the same kind of process (plain / storm / mixed languages) as the recorded one
                lines += cold_lines(binary, cut["cold_lang"], cut["cold_seed"], 999 + 3 * (batch * 4 + k) + cut.get("cold_round", 0) % 3)
                tried += 1
            v = vlib.validate(lines, [prop], shards=4)
            if v.infra:
                raise Infra("replay trace unusable: %s" % v.infra[:3])
            mine = [b for b in v.bad if b[1] == prop]
            if mine:
                return (False, "cold concurrent start repeated in %d fresh processes: %d failing calls" % (tried, len(mine)))
        return (True, "cold concurrent start repeated in %d fresh processes, no failing call" % tried)
    return rp


def phased_recorder(prop):
    """main phase, then the extreme-argument phase in a child process under an address-space limit: a library
    that allocates or reads before gating can take the process down, which is behaviour of the real code"""
    import resource

    def rec(binary, tier, seed):
        d = vlib.scratch("verif-tr-")
        out = os.path.join(d, "trace.ndjson")
        vlib.run_harness(binary, ["gen", "-prop", prop, "-tier", tier, "-seed", str(seed), "-out", out])
        lines = vlib.read_trace(out)
        lines += arch32_lines(prop, tier, seed)
        lines += purego_lines(prop, tier, seed)
        if prop == "C14":
            lines += cold_start(binary, tier, seed)     # first calls of a fresh process made by many goroutines at once
        out2 = os.path.join(d, "extreme.ndjson")

        def limit():
            resource.setrlimit(resource.RLIMIT_AS, (12 << 30, 12 << 30))
        env = dict(os.environ, VERIF_DATA=os.path.join(vlib.SPEC, "data"))
        r = subprocess.run(["timeout", "900", binary, "gen", "-prop", prop, "-tier", tier, "-seed", str(seed), "-arg", "extreme", "-out", out2],
                           capture_output=True, text=True, env=env, preexec_fn=limit)
        ext = vlib.read_trace(out2) if os.path.exists(out2) else []
        if ext and not ext[-1].endswith("\n"):
            ext = ext[:-1]
        if r.returncode != 0:
            if "github.com/islishude/bip39." in r.stderr and ("fatal error" in r.stderr or "panic:" in r.stderr or "out of memory" in r.stderr):
                last = next((json.loads(x) for x in reversed(ext) if '"op":"NewMnemonicCall"' in x), {})
                ext.append(json.dumps({"op": "Crash", "panicked": True, "timeout": False, "call": last,
                                       "panic": [ord(c) for c in r.stderr[:1200] if ord(c) < 0x110000]}) + "\n")
            else:
                raise Infra("harness (extreme phase) failed rc=%d: %s" % (r.returncode, r.stderr[-1500:]))
        return lines + ext, 2, {}
    return rec


def phased_extreme(binary, prop, tier, seed):
    """the extreme-argument phase alone; returns (event lines, crashed?)"""
    import resource
    d = vlib.scratch("verif-tr-")
    out2 = os.path.join(d, "extreme.ndjson")

    def limit():
        resource.setrlimit(resource.RLIMIT_AS, (12 << 30, 12 << 30))
    env = dict(os.environ, VERIF_DATA=os.path.join(vlib.SPEC, "data"))
    r = subprocess.run(["timeout", "900", binary, "gen", "-prop", prop, "-tier", tier, "-seed", str(seed), "-arg", "extreme", "-out", out2],
                       capture_output=True, text=True, env=env, preexec_fn=limit)
    crashed = r.returncode != 0 and "github.com/islishude/bip39." in r.stderr and ("fatal error" in r.stderr or "panic:" in r.stderr or "out of memory" in r.stderr)
    return (vlib.read_trace(out2) if os.path.exists(out2) else []), crashed, r


def phased_replay(prop):
    """a recorded process death is confirmed by running the extreme phase again; everything else is re-executed call by call"""
    def rp(path, binary):
        unit = json.load(open(path))["unit"]
        if unit and (unit[0].get("cold") or "concuni_seed" in unit[0] or "batch_seed" in unit[0]):
            return cold_replay(prop)(path, binary)
        if any(e.get("op") == "Crash" and "call" in e for e in unit):        # (a death in the extreme-argument phase names the call)
            reset = next((e for e in unit if e.get("op") == "Reset"), {})
            _, crashed, r = phased_extreme(binary, prop, reset.get("tier", "quick"), reset.get("seed", 1))
            return (not crashed, "extreme-argument phase re-run in a child process: %s" % ("died again: " + r.stderr[:200].replace("\n", " | ") if crashed else "completed"))
        return plain_replay(prop, path, binary)
    return rp


# --------------------------------------------------------------------------
# what a property speaks about (for the measured coverage numbers)

def valid_enc(e):
    return e.get("op") == "ByEntropy" and e.get("ent_len") in SIZES and 0 <= e.get("lang", -1) <= 9


def key_of(e):
    op = e.get("op")
    if op == "ByEntropy":
        return (op, tuple(e["ent"]), e["ent_len"], e["lang"])
    if op == "Check":
        return (op, tuple(e["in"]), e["lang"])
    if op == "ToSeed":
        return (op, tuple(e["m"]), tuple(e["p"]))
    if op == "String":
        return (op, e["n"]["neg"], tuple(e["n"]["digits"]))
    if op == "NewMnemonic":
        return (op, e["n"]["neg"], tuple(e["n"]["digits"]), e["lang"], e.get("_reads"))
    if op == "Sweep":
        return (op, tuple(e["prefix"]), e["lang"])
    return (op, json.dumps(e, sort_keys=True))


def sample_of(e):
    op = e.get("op")
    s = {"op": op}
    for k in ("lang", "fam", "k", "ent", "valid", "group", "variant", "cls", "desc", "asked", "gave", "errkind", "prev_is_os", "accepted_n"):
        if k in e:
            s[k] = e[k]
    for k in ("out", "in", "m", "p", "panic"):
        if k in e and e[k]:
            s[k] = vlib.text_of(e[k])[:200]
    if "err" in e:
        s["err"] = "nil" if e["err"]["nil"] else vlib.text_of(e["err"]["msg"])[:120]
    if "n" in e and isinstance(e["n"], dict):
        s["n"] = ("-" if e["n"]["neg"] else "") + "".join(map(str, e["n"]["digits"]))
    if "seed" in e and isinstance(e["seed"], list):
        s["seed"] = bytes(e["seed"]).hex()
    return s


RULES = {}


def coverage(prop, rec, lines, v, mcs, ntraces, extra):
    speaks = rec.get("speaks", lambda e: e.get("op") not in ("Reset", "Cut", "MapLens"))
    keys, n, samples, fams = set(), 0, [], {}
    step = max(1, len(lines) // 7)
    reads = []
    arch32, n32, ncold, ncrash, nhammer = False, 0, 0, 0, 0
    for i, ln in enumerate(lines):
        try:
            e = json.loads(ln)
        except Exception:
            continue
        if e.get("op") in ("Reset", "Cut"):
            arch32 = e.get("arch") == "386"
            ncold += 1 if e.get("cold") else 0
        ncrash += 1 if e.get("op") == "Crash" else 0
        nhammer += 1 if e.get("role") == "hammer" else 0
        if e.get("op") == "NewMnemonicCall":
            reads = []
        elif e.get("op") == "Read":
            reads.append((e["gave"], e["errkind"]))
        elif e.get("op") == "NewMnemonic":
            e["_reads"] = tuple(reads)
        if not speaks(e):
            continue
        n += 1
        n32 += 1 if arch32 else 0
        keys.add(key_of(e))
        f = e.get("fam") or e.get("cls") or e.get("op")
        fams[f] = fams.get(f, 0) + 1
        if i % step == 1 or len(samples) < 2:
            if len(samples) < 8:
                samples.append(sample_of(e))
    cov = dict(
        states=max(1, sum(m["distinct"] for m in mcs) + v.tlc_states),
        transitions=max(1, sum(m["states"] for m in mcs) + v.tlc_states),
        design_level=[{k: m[k] for k in ("module", "states", "distinct", "wall_s") if k in m} | ({"negative_control_violated": m["control_violated"]} if "control_violated" in m else {}) for m in mcs],
        trace_validation_states=v.tlc_states,
        traces_validated_against_impl=ntraces,
        events_validated=v.lines,
        evaluations=n,
        distinct_nontrivial=len(keys),
        rule=rec.get("rule", "events the property speaks about, distinct by (operation, arguments)"),
        by_family=fams,
        samples=samples or [{"note": "no sample"}],
        exhaustive=bool(rec.get("exhaustive", False)),
        drift=[list(x) for x in v.drift[:10]],
        known_finding_events=len(v.known),
    )
    if rec.get("need_cover") and any(v.cover.get(str(l), 0) != 2048 for l in range(10)):
        raise Infra("index cover incomplete: %s" % v.cover)
    if v.cover and any(v.cover.values()):
        cov["list_indices_covered_per_language"] = v.cover
    if n32:
        cov["evaluations_in_32bit_build"] = n32
    if ncold:
        cov["cold_concurrent_start_processes"] = ncold
    if nhammer:
        cov["unsynchronised_overlapping_calls"] = nhammer
    if ncrash:
        cov["process_deaths_recorded"] = ncrash
    cov.update(extra or {})
    return cov


def assumptions(prop, rec):
    base = [
        "TLC evaluates the TLA+ definitions; SHA-256, SHA-512, HMAC, PBKDF2 and IndexOf go through Java overrides that are compared with the pure TLA+ definitions on a sample by bin/selftest (and by `check selftest`)",
        "golden word lists: snapshot in spec/data/wordlists.json whose SHA-256 fingerprints are ASSUMEd in Wordlists.tla",
        "NFKD data: CPython unicodedata (Unicode 14.0)",
        "the harness logs observations faithfully (it computes no expected values)",
        "platforms: linux/amd64, and linux/386 for the data-level families (the 32-bit build runs on this kernel); other GOARCH/GOOS values are not executed",
    ]
    return base + rec.get("assumes", [])


# --------------------------------------------------------------------------

def is_check(e):
    return e.get("op") in ("Check", "Sweep")


RECIPES = {
    "C01": dict(mc=[mc_codec(False)], record=gen_recorder("C01", cold=True, batch=True), replay=cold_replay("C01"), prefix_ok=True, props=["C01"], speaks=valid_enc,
                rule="NewMnemonicByEntropy calls with a valid size and supported language, distinct by (entropy, language); families: Latin square "
                     "(every (position,index) pair), every index at the last position, every first SHA-256 byte, 0/1 runs, single bits, random"),
    "C02": dict(mc=[mc_codec(True)], record=gen_recorder("C02", cold=True, batch=True), replay=cold_replay("C02"), prefix_ok=True, props=["C02"],
                speaks=lambda e: is_check(e) and (e.get("gen") or e.get("op") == "Sweep"),
                rule="mnemonics generated by NewMnemonicByEntropy / NewMnemonic fed back into CheckMnemonic+IsMnemonicValid, and last-word sweeps "
                     "(the 2^(11-CS) predicted words must all be accepted); distinct by (sentence, language); canonical validity is decided by TLC from the input alone"),
    "C03": dict(mc=[mc_codec(True)], record=gen_recorder("C03", concheck=True), replay=cold_replay("C03"), prefix_ok=True, props=["C03"], speaks=is_check,
                rule="CheckMnemonic/IsMnemonicValid verdicts on damaged sentences (all 2047 substitutions at a position, transpositions, count changes, other lists, "
                     "case/affix damage, separators, byte fuzz) and sweeps of all 2048 last words; distinct by (input, language)"),
    "C15": dict(mc=[mc_codec(False)], record=gen_recorder("C15", concheck=True), replay=cold_replay("C15"), props=["C15"], speaks=lambda e: e.get("op") == "Check",
                rule="CheckMnemonic error values on sentences with one class of defect (counts 0..30, unknown tokens at every position, wrong last word) "
                     "and on the C03 mutation classes; distinct by (input, language)"),
    "C08": dict(mc=[MC_LISTS], record=gen_recorder("C08", cold=True), replay=cold_replay("C08"), prefix_ok=True, props=["C08"], exhaustive=True, need_cover=True,
                speaks=lambda e: e.get("op") in ("ByEntropy", "Check", "ListSource", "Gen"),
                rule="all 10 x 2048 list indices: the word emitted through NewMnemonicByEntropy for every index (cover family), validation of sentences "
                     "containing every word and of the same sentences with one word replaced by a list neighbour, and the parsed source text of internal/wordlist/*.go"),
    "C09": dict(mc=[MC_GATES, proof_gates], record=phased_recorder("C09"), replay=phased_replay("C09"), prefix_ok=True, props=["C09", "DRIFT"], exhaustive=True,
                speaks=lambda e: e.get("op") in ("ByEntropy", "NewMnemonic", "Read", "Crash"),
                rule="every entropy length 0..4096 (+nil, +2^16/2^20/2^24 +-{0,1,4}) and every word count -4096..4096 (+extremes of int) under a counting source; "
                     "distinct by (operation, length or count, language)"),
    "C14": dict(mc=[MC_NAMES, lambda t, s_: mc_history(t, s_)], record=phased_recorder("C14"), replay=phased_replay("C14"), prefix_ok=True, props=["C14"],
                speaks=lambda e: "panicked" in e,
                rule="product of argument classes (21 Language values x strings incl. every invalid-UTF-8 shape x entropy sizes x counts), fuzzed bytes, "
                     "multi-megabyte inputs, each call under recover and a 120 s watchdog; distinct by (operation, arguments)"),
    "C16": dict(mc=[MC_NAMES], record=gen_recorder("C16", cold=True), replay=cold_replay("C16"), prefix_ok=True, props=["C16"], exhaustive=True,
                speaks=lambda e: e.get("op") == "String",
                rule="Language(N).String() for every N in -70000..70000 and 42 extreme values; distinct by N"),
    "C04": dict(mc=[MC_UNICODE, mc_kdf, lambda t, s_: mc_lifetime(t, s_)], record=gen_recorder("C04", concuni=True), replay=cold_replay("C04"), prefix_ok=True, props=["C04"], speaks=lambda e: e.get("op") == "ToSeed",
                rule="MnemonicToSeed on the product of argument classes (empty, ASCII, list words in NFC/NFD/NFKC/NFKD, full-width, compatibility characters, reordering marks, "
                     "passphrases beginning with marks, lengths around the 128-byte HMAC block, 4096 bytes, invalid sentences, random Unicode 14 text); distinct by (mnemonic, passphrase)"),
    "C10": dict(mc=[MC_UNICODE, MC_LISTS], record=gen_recorder("C10", concuni=True), replay=cold_replay("C10"), prefix_ok=True, props=["C10"], speaks=lambda e: e.get("op") == "Check" and "group" in e,
                rule="groups of spellings with equal NFKD (established by TLC): every word of the seeded languages' lists inside valid sentences in asis/NFC/NFD/NFKC/NFKD/full-width "
                     "forms with U+0020/U+3000/U+00A0/U+2003/mixed separators, invalid sentences, random Unicode strings; distinct by (input, language)"),
    "C11": dict(mc=[MC_UNICODE], record=gen_recorder("C11", concuni=True), replay=cold_replay("C11"), prefix_ok=True, props=["C11"], speaks=lambda e: e.get("op") == "ToSeed" and "group" in e,
                rule="groups of (mnemonic, passphrase) spellings with equal NFKD (established by TLC): covering sentences in five forms and both separators, "
                     "compatibility/combining passphrases, random Unicode; distinct by (mnemonic, passphrase)"),
    "C05": dict(mc=[mc_codec(False)], record=gen_recorder("C05", cold=True, batch=True), replay=cold_replay("C05"), prefix_ok=True, props=["C05"], speaks=valid_enc,
                rule="NewMnemonicByEntropy outputs decoded by the specification's decoder; distinct by (entropy, language); includes all single-bit flips of seeded bases"),
}


# --------------------------------------------------------------------------
# C06 / C09: the reader protocol.  MC_Reader is checked exhaustively for each
# accepted word count, its labelled state graph is dumped, and every edge
# (every k -> k', every failure kind at every k) becomes one scripted reader.
import re, random
_reader_graphs = {}


def parse_dot(path):
    nodes, edges, init = {}, [], None
    node_re = re.compile(r'^(-?\d+) \[label="((?:[^"\\]|\\.)*)"(,style = filled)?')
    edge_re = re.compile(r'^(-?\d+) -> (-?\d+) \[label="((?:[^"\\]|\\.)*)"')
    for ln in open(path):
        m = edge_re.match(ln)
        if m:
            edges.append((m.group(1), m.group(2), m.group(3).replace('\\"', '"')))
            continue
        m = node_re.match(ln)
        if m:
            lab = m.group(2).replace('\\n', '\n').replace('\\"', '"').replace('\\\\', '\\')
            st = {}
            for part in lab.split('\n'):
                mm = re.match(r'\s*/\\ (\w+) = (.*)', part)
                if mm:
                    st[mm.group(1)] = mm.group(2).strip('"')
            nodes[m.group(1)] = st
            if m.group(3):
                init = m.group(1)
    return nodes, edges, init


def mc_calls(tier, seed):
    """calls overlapping on one source: per-call buffers (the code), a mutex held for the whole call, a pool with
    single release hold; a shared buffer, a mutex around the reads only, a double release are counterexamples"""
    nc = "{a, b, c}" if tier == "thorough" else "{a, b}"
    base = 'SPECIFICATION Spec\nCONSTANTS Calls = %s N = 4 MaxFail = 2 BufImpl = "%s"\nINVARIANTS OwnBytesOnly NoForeignByte ExclusiveBuffers LockSane\nCHECK_DEADLOCK FALSE\n'
    res = []
    for impl in ("percall", "lockedcall", "pooled"):
        r = vlib.run_mc("MC_Calls", base % (nc if impl != "pooled" else "{a, b, c}", impl), workers=4, timeout=600)
        r["module"] = "MC_Calls[%s]" % impl
        res.append(r)
    for impl in ("shared", "lockedread", "pooledtwice"):
        r = vlib.run_mc("MC_Calls", base % ("{a, b, c}", impl), workers=4, timeout=600, expect_violation="is violated")
        r["module"] = "MC_Calls[%s control]" % impl
        res.append(r)
    return res


def mc_memo(tier, seed):
    """'a function of its arguments' against a memo of the last call: none (the code) and a copying memo hold; a key
    that aliases the caller's buffer, a result handed out by reference and a memo whose zero value is a real key are counterexamples"""
    base = 'SPECIFICATION Spec\nCONSTANTS Vals = {1, 2, 3} MemoImpl = "%s"\nINVARIANTS FunctionOfArguments\nCHECK_DEADLOCK FALSE\n'
    res = []
    for impl in ("none", "copy"):
        r = vlib.run_mc("MC_Memo", base % impl, workers=2, timeout=300)
        r["module"] = "MC_Memo[%s]" % impl
        res.append(r)
    for impl in ("aliaskey", "aliasres", "zerokey"):
        r = vlib.run_mc("MC_Memo", base % impl, workers=2, timeout=300, expect_violation="is violated")
        r["module"] = "MC_Memo[%s control]" % impl
        res.append(r)
    return res


def mc_lifetime(tier, seed):
    """buffer lifetime under a collector with finalizers: no wrapper (the code) and wrapper + KeepAlive hold; a wrapper
    that dies while its slice is in use, and a finalizer on the wrapper of the returned result, are counterexamples"""
    base = 'SPECIFICATION Spec\nCONSTANTS K = %d WipeImpl = "%%s"\nINVARIANTS EncodesDelivered ResultStays\nCHECK_DEADLOCK FALSE\n' % (3 if tier == "quick" else 6)
    res = []
    for impl in ("none", "keepalive"):
        r = vlib.run_mc("MC_Lifetime", base % impl, workers=2, timeout=300)
        r["module"] = "MC_Lifetime[%s]" % impl
        res.append(r)
    for impl in ("nokeep", "result"):
        r = vlib.run_mc("MC_Lifetime", base % impl, workers=2, timeout=300, expect_violation="is violated")
        r["module"] = "MC_Lifetime[%s control]" % impl
        res.append(r)
    return res


def mc_reader(tier, seed):
    res = []
    for w in (12, 15, 18, 21, 24):
        d = vlib.spec_dir()
        cfg = vlib.write_cfg(d, "MC_Reader_run.cfg", 'SPECIFICATION Spec\nCONSTANTS W = %d ReadImpl = "readfull" MaxStutter = 1\n'
                             'INVARIANTS FailClosed FailsOnlyWhenSourceFailed SuccessWhenDelivered RejectedCountsConsumeNothing AcceptedCountsNeverWordLen\n'
                             'PROPERTY Terminates\nCHECK_DEADLOCK FALSE\n' % w)
        rc, out, wall = vlib.tlc(d, "MC_Reader.tla", cfg, workers=2, timeout=600, args=["-dump", "dot,actionlabels", "graph.dot"])
        m = vlib.STAT_RE.findall(out)
        if "No error has been found" not in out or not m:
            raise Infra("MC_Reader W=%d failed:\n%s" % (w, out[-2000:]))
        res.append(dict(module="MC_Reader[W=%d]" % w, states=int(m[-1][0]), distinct=int(m[-1][1]), wall_s=round(wall, 1)))
        _reader_graphs[w] = parse_dot(os.path.join(d, "graph.dot"))
    # rejected counts never reach the source
    for w in (11, 13, 25, 27):
        cfg = ('SPECIFICATION Spec\nCONSTANTS W = %d ReadImpl = "readfull" MaxStutter = 1\nINVARIANTS RejectedCountsConsumeNothing AcceptedCountsNeverWordLen\n'
               'PROPERTY Terminates\nCHECK_DEADLOCK FALSE\n' % w)
        r = vlib.run_mc("MC_Reader", cfg, workers=1, timeout=300)
        r["module"] = "MC_Reader[W=%d]" % w
        res.append(r)
    # negative controls: loops that are not io.ReadFull (thorough: all four; quick: the two shaped after seeded changes C06l, C14l)
    for impl in (("single", "ignoreerr", "atleastwords", "retryeof") if tier == "thorough" else ("atleastwords", "retryeof")):
        if impl == "retryeof":      # never returns on a finite source that ends early: a liveness violation
            cfg = 'SPECIFICATION Spec\nCONSTANTS W = 12 ReadImpl = "%s" MaxStutter = 1\nPROPERTY Terminates\nCHECK_DEADLOCK FALSE\n' % impl
            r = vlib.run_mc("MC_Reader", cfg, workers=1, timeout=300, expect_violation="Terminates")
        else:
            cfg = 'SPECIFICATION Spec\nCONSTANTS W = 12 ReadImpl = "%s" MaxStutter = 1\nINVARIANTS FailClosed\nCHECK_DEADLOCK FALSE\n' % impl
            r = vlib.run_mc("MC_Reader", cfg, workers=1, timeout=300, expect_violation="FailClosed")
        r["module"] = "MC_Reader[%s control]" % impl
        res.append(r)
    return res


def reader_scripts(w, rng, every):
    """one script per Read edge of the graph: a path to the edge's source state, the edge, a continuation"""
    nodes, edges, init = _reader_graphs[w]
    out_edges, parent = {}, {init: None}
    for (u, v, lab) in edges:
        out_edges.setdefault(u, []).append((v, lab))
    # BFS tree with seeded tie-breaking: varied fragmentations lead to the same state
    order = [init]
    for u in order:
        oe = out_edges.get(u, [])[:]
        rng.shuffle(oe)
        for (v, lab) in oe:
            if v not in parent and lab.startswith("Read"):
                parent[v] = (u, lab)
                order.append(v)

    def step_of(lab):
        m = re.match(r'Read\((\d+),"(\w*)"\)', lab)
        return {"k": int(m.group(1)), "err": m.group(2)}

    scripts = []
    read_edges = [(u, v, lab) for (u, v, lab) in edges if lab.startswith("Read")]
    for i, (u, v, lab) in enumerate(read_edges):
        if i % every:
            continue
        path, x = [], u
        while parent.get(x):
            x, l2 = parent[x]
            path.append(step_of(l2))
        path.reverse()
        # sometimes reach u by a random walk instead of the tree path
        path.append(step_of(lab))
        x = v
        # continuation: random error-free reads until the buffer is full (the harness source would otherwise deliver all at once)
        while nodes[x].get("pc") == "loop" and nodes[x].get("err") == "" and int(nodes[x]["n"]) < w + w // 3:
            cand = [(vv, ll) for (vv, ll) in out_edges.get(x, []) if ll.startswith("Read") and ll.endswith(',"")') and not ll.startswith("Read(0,")]
            if not cand or rng.random() < 0.3:
                break
            x, l3 = rng.choice(cand)
            path.append(step_of(l3))
        scripts.append(path)
    return scripts, len(read_edges)


def record_c06(binary, tier, seed):
    rng = random.Random(seed)
    steps = [{"op": "swap", "kind": "script"}]
    nedges = nrun = 0
    fills = 1 if tier == "quick" else 10
    for w in (12, 15, 18, 21, 24):
        scripts, ne = reader_scripts(w, rng, 1)
        nedges += ne
        for f in range(fills):
            for i, sc in enumerate(scripts):
                lang = (i + f * 3 + seed) % 10
                steps.append({"op": "new", "n": w, "lang": lang, "script": sc, "after": "data", "fill": f})
                nrun += 1
                if nrun % 60 == 0:
                    steps.append({"op": "cut"})
    # all two-piece splits and 1-byte reads
    for w in (12, 15, 18, 21, 24):
        need = w + w // 3
        for a in range(1, need):
            steps.append({"op": "new", "n": w, "lang": (a + seed) % 10, "script": [{"k": a, "err": ""}, {"k": need - a, "err": ""}], "after": "data", "fill": 9})
        steps.append({"op": "new", "n": w, "lang": seed % 10, "script": [{"k": 1, "err": ""}] * need, "after": "data", "fill": 9})
        steps.append({"op": "cut"})
    # the same stream delivered to consecutive calls (a source restarted from its seed): each call is still a function of
    # the bytes it was handed, whatever the previous call was handed
    for w in (12, 15, 18, 21, 24):
        need = w + w // 3
        for rep in range(3):
            steps.append({"op": "new", "n": w, "lang": (seed + rep // 2) % 10, "script": [{"k": need, "err": ""}], "after": "data", "fill": 100 + w})
            nrun += 1
        steps.append({"op": "new", "n": w, "lang": seed % 10, "script": [{"k": 4, "err": ""}, {"k": need - 4, "err": ""}], "after": "data", "fill": 100 + w})
        nrun += 1
    steps.append({"op": "cut"})
    # a working source that is slow to answer (1.2 s before the first bytes, and again mid-way)
    for (w, sc) in ((12, [{"k": 16, "err": ""}]), (24, [{"k": 9, "err": ""}, {"k": 23, "err": ""}])):
        steps.append({"op": "new", "n": w, "lang": seed % 10, "script": sc, "after": "data", "fill": 8, "delay_ms": (3300 if w == 12 else 1200) if tier == "quick" else 6500})
        # ... and the calls that follow a slow one are served as ever
        steps.append({"op": "new", "n": 24, "lang": seed % 10, "script": [{"k": 7, "err": ""}, {"k": 25, "err": ""}], "after": "data", "fill": 8})
        steps.append({"op": "new", "n": 12, "lang": seed % 10, "script": [{"k": 8, "err": ""}, {"k": 0, "err": "custom"}], "after": "data", "fill": 8})
        steps.append({"op": "new", "n": 15, "lang": seed % 10, "script": [{"k": 20, "err": ""}], "after": "data", "fill": 8})
        nrun += 3
        nrun += 1
    steps.append({"op": "cut"})
    # collections and finalizers run between the pieces of a delivery (a busy process): the bytes delivered first are
    # still there when the call encodes
    for w in (12, 15, 18, 21, 24):
        need = w + w // 3
        for a in (1, need // 2, need - 1):
            steps.append({"op": "new", "n": w, "lang": (seed + a) % 10, "script": [{"k": a, "err": ""}, {"k": need - a, "err": ""}], "after": "data", "fill": 6, "gc": True})
            nrun += 1
    steps.append({"op": "cut"})
    # a source with a defect of its own panics inside Read; the caller recovers (a request handler); the calls that
    # follow, on a healthy source, work as ever
    for w in (12, 24, 18):
        steps.append({"op": "new", "n": w, "lang": seed % 10, "script": [{"k": 5, "err": ""}, {"k": 0, "err": "panic"}], "after": "data", "fill": 5})
        steps.append({"op": "new", "n": w, "lang": seed % 10, "script": [{"k": w + w // 3, "err": ""}], "after": "data", "fill": 5})
        steps.append({"op": "new", "n": 12, "lang": (seed + 1) % 10, "script": [{"k": 0, "err": "panic"}], "after": "data", "fill": 5})
        steps.append({"op": "new", "n": 15, "lang": (seed + 1) % 10, "script": [{"k": 7, "err": ""}, {"k": 13, "err": ""}], "after": "data", "fill": 5})
        nrun += 4
    steps.append({"op": "cut"})
    # the same protocol through sources of other dynamic types: an io.ByteReader, a *bufio.Reader (fresh per call,
    # so that read-ahead does not carry over); a library that type-switches on its source must not change behaviour
    allruns = [st for st in steps if st.get("op") == "new"]
    for kind in ("bytereader", "bufio"):
        pick = rng.sample(allruns, min(len(allruns), 300 if tier == "quick" else 3000))
        if kind == "bytereader":
            steps.append({"op": "swap", "kind": kind})
        for i, st in enumerate(pick):
            if kind == "bufio":
                steps.append({"op": "swap", "kind": kind})
            steps.append(dict(st))
            nrun += 1
            if i % 60 == 59:
                steps.append({"op": "cut"})
        steps.append({"op": "cut"})
    # a source that also offers ReadAt / Seek / Len (a *bytes.Reader, an *os.File): consecutive calls on the same
    # reader each take the NEXT bytes of the stream, through Read
    steps.append({"op": "swap", "kind": "seekable"})
    for w in (12, 24, 15, 12, 21, 18, 24):
        steps.append({"op": "new", "n": w, "lang": (seed + w) % 10, "script": [], "after": "data", "fill": 4})
        nrun += 1
    steps.append({"op": "cut"})
    steps.append({"op": "swap", "kind": "script"})
    # the model's "custom" failure stands for any error that is not EOF: concretised with the kinds of error real
    # sources return (temporary ones included), once followed by more data and once by the same failure for ever
    kinds = ["EINTR", "EAGAIN", "temporary", "wrappedEOF", "noprogress", "shortbuffer", "closedpipe", "deadline", "custom", "EOF", "UEOF", "listerr"]
    for w in (12, 15, 18, 21, 24):
        need = w + w // 3
        for k in (0, 1, 5, need - 1):
            for kind in kinds:
                for after in ("data", kind):
                    pre = [{"k": k, "err": ""}] if (k and rng.random() < 0.5) else []
                    sc = pre + [{"k": 0 if pre else k, "err": kind}]
                    steps.append({"op": "new", "n": w, "lang": rng.randrange(10), "script": sc, "after": after, "fill": 7})
                    nrun += 1
        steps.append({"op": "cut"})
    # a process that is no longer young (deadlines fixed at start-up, idle timers): the protocol is the same
    steps.append({"op": "age", "delay_ms": 11000 if tier == "quick" else 65000})
    for w in (12, 24, 18):
        need = w + w // 3
        steps.append({"op": "new", "n": w, "lang": seed % 10, "script": [{"k": 5, "err": ""}, {"k": need - 5, "err": ""}], "after": "data", "fill": 3})
        steps.append({"op": "new", "n": w, "lang": seed % 10, "script": [{"k": 5, "err": ""}, {"k": 0, "err": "EOF"}], "after": "EOF", "fill": 3})
        nrun += 2
    steps.append({"op": "cut"})
    steps.append({"op": "swap", "kind": "os"})
    d = vlib.scratch("verif-tr-")
    prog, out = os.path.join(d, "prog.json"), os.path.join(d, "trace.ndjson")
    json.dump({"steps": steps}, open(prog, "w"))
    vlib.run_harness(binary, ["prog", "-arg", prog, "-seed", str(seed), "-out", out])
    lines = vlib.read_trace(out)
    # overlapping calls on one injected source (a call held inside Read while another runs to completion)
    ov = overlap_lines(binary, tier, seed)
    lines += ov
    nrun += sum(1 for x in ov if '"op":"NewMnemonic"' in x)
    return lines, nrun, {"graph_edges_replayed": nedges, "reader_runs": nrun, "exhaustive_edge_cover": True}


def replay_c06(path, binary):
    """units of the overlap scenarios are confirmed by running the scenarios again; everything else call by call"""
    unit = json.load(open(path))["unit"]
    cut = next((e for e in unit if e.get("op") == "Cut" and "overlap_seed" in e), None)
    d = vlib.scratch("verif-rp-")
    out = os.path.join(d, "replay.ndjson")
    if cut is None:
        return plain_replay("C06", path, binary)
    for attempt in range(4):        # (what overlapping calls do depends on the schedule: up to four runs)
        lines = overlap_lines(binary, cut["overlap_tier"], cut["overlap_seed"] + attempt)
        v = vlib.validate(lines, ["C06"], shards=4)
        if v.infra:
            raise Infra("replay trace unusable: %s" % v.infra[:3])
        mine = [b for b in v.bad if b[1] == "C06"]
        if mine:
            break
    return (len(mine) == 0, "%s: %d events, %d failing" % ("overlap scenarios run again" if cut is not None else "re-executed", len(lines), len(mine)))


RECIPES["C06"] = dict(mc=[mc_reader, mc_calls, mc_lifetime], record=record_c06, replay=replay_c06, prefix_ok=True, props=["C06", "DRIFT"], exhaustive=True,
                      speaks=lambda e: e.get("op") in ("NewMnemonic", "Read"),
                      rule="one scripted reader per edge of MC_Reader's state graph (every delivered count k -> k', every failure kind EOF/unexpected EOF/other with or "
                           "without bytes alongside, (0,nil) reads) for each of the five word counts, plus all two-piece splits and 1-byte reads; distinct by (count, language, reads)")


# --------------------------------------------------------------------------
# C07: fresh processes on the default source, observed with strace
import subprocess


def _unhex(s):
    return bytes(int(x, 16) for x in re.findall(r'\\x([0-9a-f]{2})', s))


def parse_strace(path):
    """regions between VERIF-MARK writes: list of (name, [bytes delivered by getrandom...], clean)"""
    regions, cur = [], None
    for ln in open(path, errors="replace"):
        m = re.search(r'write\(987, "((?:\\x[0-9a-f]{2})*)"', ln)
        if m:
            tag = _unhex(m.group(1)).decode(errors="replace").replace("VERIF-MARK-", "")
            if tag.endswith("BEGIN"):
                cur = dict(name=tag, rand=[], clean=True)
            elif tag.endswith("END") and cur is not None:
                regions.append(cur)
                cur = None
            continue
        if cur is None:
            continue
        m = re.search(r'getrandom\("((?:\\x[0-9a-f]{2})*)"(\.\.\.)?, (\d+), (\w+)\)\s+= (\d+)', ln)
        if m:
            if m.group(2):
                cur["clean"] = False     # strace truncated the buffer
            cur["rand"].append(list(_unhex(m.group(1))))
        elif "getrandom" in ln:
            cur["clean"] = False         # unfinished / resumed / failed call: not usable as an observation
    return regions


CONVENTIONAL_ENV = {"SOURCE_DATE_EPOCH": "1700000000", "FAKETIME": "2020-01-01 00:00:00", "TZ": "UTC", "LANG": "C", "LC_ALL": "tr_TR.UTF-8", "CI": "true", "DEBUG": "1",
                    "TEST": "1", "SEED": "1", "RANDOM_SEED": "1", "DETERMINISTIC": "1", "REPRODUCIBLE": "1", "GOGC": "50", "GOMAXPROCS": "3", "BIP39_DEBUG": "1",
                    "BIP39_SEED": "1", "ENTROPY": "00000000000000000000000000000000", "NO_RANDOM": "1", "INSECURE": "1"}


def osproc_env(env_mode, slow_ms):
    """the environment of a fresh process: as inherited; with the variables build systems, test runners and
    'reproducible' modes conventionally set; or stripped to almost nothing"""
    base = dict(os.environ, VERIF_DATA=os.path.join(vlib.SPEC, "data"), VERIF_SLOW_MS=str(slow_ms))
    if env_mode.startswith("idle"):
        base["VERIF_IDLE_MS"] = env_mode[4:]
    if env_mode == "conventional":
        base.update(CONVENTIONAL_ENV)
    elif env_mode == "bare":
        base = {k: v for k, v in base.items() if k in ("PATH", "VERIF_DATA", "VERIF_SLOW_MS")}
    return base


def osproc_trace(binary, n, l, seed, d, slow_ms=0, env_mode=""):
    """one fresh process on the default source under strace -> (event lines, number of calls explained by getrandom)"""
    tr, st = os.path.join(d, "t.ndjson"), os.path.join(d, "st.txt")
    r = subprocess.run(["timeout", "120", "strace", "-f", "-e", "trace=getrandom,write", "-xx", "-s", "256", "-o", st,
                        binary, "osproc", "-n", str(n), "-lang", str(l), "-seed", str(seed), "-out", tr],
                       capture_output=True, text=True, env=osproc_env(env_mode, slow_ms))
    if r.returncode != 0:
        raise Infra("osproc under strace failed: " + r.stderr[-1000:])
    regions = parse_strace(st)
    evs = [json.loads(x) for x in vlib.read_trace(tr)]
    cal = next((g for g in regions if g["name"].startswith("CAL")), None)
    runs = [g for g in regions if not g["name"].startswith("CAL")]
    visible, observed, out, pending = False, 0, [], None
    for e in evs:
        if e["op"] == "OSCalibration":
            flat = [b for ch in (cal["rand"] if cal else []) for b in ch]
            visible = bool(cal) and cal["clean"] and flat == e["bytes"]
            continue
        if e["op"] == "OSMark":
            g = runs[e["id"]] if e["id"] < len(runs) else None
            pending = g if (visible and g and g["clean"]) else None
            continue
        if e["op"] == "NewMnemonicCall" and e.get("default_source"):
            out.append(e)
            if pending is not None:
                for ch in pending["rand"]:
                    out.append({"op": "OSRandom", "bytes": ch})
            continue
        if e["op"] == "NewMnemonic" and e.get("default_source"):
            e["os_observed"] = pending is not None
            observed += 1 if pending is not None else 0
            pending = None
        out.append(e)
    return [json.dumps(e) + "\n" for e in out], observed


_jswasm = {}


def jswasm_runner():
    """(exec script, wasm harness) for a js/wasm build of library and harness run under Node, or None when Node or Go's
    wasm exec script is not installed (then this pass is skipped and the evidence says so)"""
    if "v" not in _jswasm:
        _jswasm["v"] = None
        node = shutil.which("node")
        r = subprocess.run(["go", "env", "GOROOT"], capture_output=True, text=True, env=vlib.GOENV)
        root = r.stdout.strip()
        ex = next((p for p in (os.path.join(root, "lib", "wasm", "go_js_wasm_exec"), os.path.join(root, "misc", "wasm", "go_js_wasm_exec")) if os.path.exists(p)), None)
        if node and ex:
            _jswasm["v"] = (ex, vlib.build_harness(name="harness", goarch="wasm", goos="js"))
    return _jswasm["v"]


def jswasm_osproc_lines(n, l, seed, d):
    """one fresh process of the js/wasm build (GOOS=js GOARCH=wasm under Node: no window object, crypto.getRandomValues
    present) on the default source: build-constrained files and host probes must not change where fresh mnemonics come
    from (seeded changes C07n, C11j live only there).  System calls are not observable here; the clauses that remain are
    source identity, well-formed fresh outputs, and everything the scripted sources decide."""
    jr = jswasm_runner()
    if jr is None:
        return []
    tr = os.path.join(d, "tjs.ndjson")
    if os.path.exists(tr):
        os.remove(tr)
    vlib.run_harness(jr[0], [jr[1], "osproc", "-n", str(n), "-lang", str(l), "-seed", str(seed), "-out", tr], timeout=300)
    out = []
    for x in vlib.read_trace(tr):
        e = json.loads(x)
        if e["op"] in ("OSCalibration", "OSMark"):
            continue
        if e["op"] == "NewMnemonic" and e.get("default_source"):
            e["os_observed"] = False
        e["build"] = "jswasm"
        out.append(json.dumps(e, separators=(",", ":")) + "\n")
    return out


def record_c07(binary, tier, seed):
    combos = [(n, l) for l in range(10) for n in (12, 15, 18, 21, 24)]
    reps = 1 if tier == "quick" else 30
    d = vlib.scratch("verif-os-")
    lines, nproc, observed = [], 0, 0
    for rep in range(reps):
        for (n, l) in combos:
            # two processes per run also meet a working source that takes 1.2 s (thorough: 0.3 .. 6 s) to answer
            slow = 0
            if (n, l) in (combos[(seed * 7) % len(combos)], combos[(seed * 7 + 23) % len(combos)]):
                slow = 1200 if tier == "quick" else [300, 1200, 3000, 6000][rep % 4]
            # the process environment varies: two processes per run see the conventional build/test/reproducibility
            # variables, two an almost empty environment - the default source is the OS generator all the same
            k = combos.index((n, l))
            mode = "conventional" if k % 25 == (seed * 3) % 25 else "bare" if k % 25 == (seed * 3 + 11) % 25 else ""
            if k == (seed * 5 + 2) % 50 and rep == 0:
                mode = "idle%d" % (11000 if tier == "quick" else 65000)   # one process idles, then generates eight times
            ls, ob = osproc_trace(binary, n, l, seed * 1000 + rep, d, slow_ms=slow, env_mode=mode)
            lines += ls
            observed += ob
            nproc += 1
    # calls that overlap in time on one source (a call held inside Read while another runs to completion): each call's
    # output is still made of the bytes its own reads delivered, nobody else's
    lines += overlap_lines(binary, tier, seed)
    nproc += 1
    # the js/wasm build under Node (another set of build-constrained files, another host)
    njs = 0
    for k in range(3 if tier == "quick" else 25):
        n, l = combos[(seed * 7 + k * 11) % len(combos)]
        ls = jswasm_osproc_lines(n, l, seed * 1000 + 500 + k, d)
        lines += ls
        njs += 1 if ls else 0
    nproc += njs
    if njs == 0:
        vlib.log("note: node or go_js_wasm_exec not found; the js/wasm pass of C07 is skipped")
    if observed == 0:
        vlib.log("note: getrandom is not observable with this toolchain; C07 falls back to source identity + well-formed, fresh outputs")
    return lines, nproc, {"processes": nproc, "default_source_calls_explained_by_getrandom": observed,
                          "getrandom_observable": observed > 0, "jswasm_processes": njs}


def replay_c07(path, binary):
    rp = json.load(open(path))
    fk = rp.get("failing_event", 0)
    fev = rp["unit"][fk - 1] if 0 < fk <= len(rp["unit"]) else {}
    if fev.get("build") == "jswasm" or (not fev and any(e.get("build") == "jswasm" for e in rp["unit"])):
        call = next((e for e in rp["unit"] if e.get("op") == "NewMnemonicCall" and e.get("n", {}).get("fits")), {"n": {"v": 12}, "lang": 2})
        d = vlib.scratch("verif-os-")
        lines = jswasm_osproc_lines(call["n"]["v"], call["lang"], 4244, d)
        if not lines:
            raise Infra("js/wasm replay: node or go_js_wasm_exec not available")
        v = vlib.validate(lines, ["C07"], shards=1)
        mine = [b for b in v.bad if b[1] == "C07"]
        return (len(mine) == 0, "re-ran a fresh js/wasm process under node: %d events, %d failing" % (len(lines), len(mine)))
    cut = next((e for e in rp["unit"] if e.get("op") == "Cut" and "overlap_seed" in e), None)
    if cut is not None:
        for attempt in range(4):        # (what overlapping calls do depends on the schedule: up to four runs)
            lines = overlap_lines(binary, cut["overlap_tier"], cut["overlap_seed"] + attempt)
            v = vlib.validate(lines, ["C07"], shards=4)
            if v.infra:
                raise Infra("replay trace unusable: %s" % v.infra[:3])
            mine = [b for b in v.bad if b[1] == "C07"]
            if mine:
                break
        return (len(mine) == 0, "overlap scenarios run again: %d events, %d failing" % (len(lines), len(mine)))
    # the process is re-run with the word count of the failing call (the unit starts with a 24-word call)
    k = rp.get("failing_event", 0)
    fe = rp["unit"][k - 1] if 0 < k <= len(rp["unit"]) else {}
    call = fe if fe.get("op") == "NewMnemonic" and fe.get("n", {}).get("fits") else None
    if call is None:
        call = next((e for e in reversed(rp["unit"]) if e.get("op") == "NewMnemonicCall"), None)
    if call is None and any(e.get("op") == "Swap" and e.get("new") == "overlap" for e in rp["unit"]):
        lines = overlap_lines(binary, "quick", 1)       # the opening of the overlap scenarios (installing the shared source)
        v = vlib.validate(lines, ["C07"], shards=4)
        mine = [b for b in v.bad if b[1] == "C07"]
        return (len(mine) == 0, "overlap scenarios run again: %d events, %d failing" % (len(lines), len(mine)))
    if call is None:
        raise Infra("C07 replay file has no NewMnemonic call")
    d = vlib.scratch("verif-os-")
    lines, ob = osproc_trace(binary, call["n"]["v"], call["lang"], 4242, d, slow_ms=1200)
    for mode in ("conventional", "bare", "idle11000"):
        l2, _ = osproc_trace(binary, call["n"]["v"], call["lang"], 4243, d, env_mode=mode)
        lines += l2
    v = vlib.validate(lines, ["C07"], shards=1)
    mine = [b for b in v.bad if b[1] == "C07"]
    return (len(mine) == 0, "re-ran a fresh process under strace: %d events, %d failing" % (len(lines), len(mine)))


RECIPES["C07"] = dict(mc=[lambda t, s_: mc_history(t, s_), mc_calls], record=record_c07, replay=replay_c07, props=["C07", "DRIFT"],
                      speaks=lambda e: e.get("op") in ("Swap", "NewMnemonic", "OSRandom"),
                      rule="one fresh process per (language, word count): two NewMnemonic calls on the untouched default source under strace (the bytes the kernel's getrandom "
                           "delivered must encode to the returned mnemonic), the identity of the pre-swap source, a scripted call, and a default call after swapping back; "
                           "distinct by (operation, arguments, delivered bytes)")


# --------------------------------------------------------------------------
# C13: call histories.  Drive_History's labelled state graph is covered edge
# by edge and walked at random; every path is a program run in a fresh process.
_hist_graph = {}


def mc_history(tier, seed):
    cfg = ('SPECIFICATION Spec\nCONSTANTS BytesMode = "padded" MapGuard = "perlang"\n'
           'INVARIANTS HistoryIndependence ResultsWellTyped MapsMatchGuards GateBeforeRead ReturnMatchesDelivery SourceInitiallyOS\n'
           'PROPERTIES SourceOnlyBySwap EveryCallReturns\nCHECK_DEADLOCK FALSE\n')
    res = [vlib.run_mc("MC_History", cfg, timeout=900)]
    if tier == "thorough":
        cfg2 = cfg.replace('"perlang"', '"shared"').replace("PROPERTIES SourceOnlyBySwap EveryCallReturns\n", "")
        r = vlib.run_mc("MC_History", cfg2, timeout=600, expect_violation="HistoryIndependence")
        r["module"] = "MC_History[shared-guard control]"
        res.append(r)
    return res


def mc_drive_history(tier, seed):
    d = vlib.spec_dir()
    cfg = vlib.write_cfg(d, "Drive_run.cfg", "SPECIFICATION Spec\nINVARIANT TypeOK\nCHECK_DEADLOCK FALSE\n")
    rc, out, wall = vlib.tlc(d, "Drive_History.tla", cfg, workers=1, timeout=300, args=["-dump", "dot,actionlabels", "graph.dot"])
    m = vlib.STAT_RE.findall(out)
    if "No error has been found" not in out or not m:
        raise Infra("Drive_History failed:\n" + out[-2000:])
    _hist_graph["g"] = parse_dot(os.path.join(d, "graph.dot"))
    return dict(module="Drive_History", states=int(m[-1][0]), distinct=int(m[-1][1]), wall_s=round(wall, 1))


COUNTS = {"n12": 12, "n15": 15, "n18": 18, "n21": 21, "n24": 24, "n0": 0, "n13": 13, "n25": 25, "nneg": -12}


def script_for(cls, n):
    need = n + n // 3 if n in (12, 15, 18, 21, 24) else 0
    if cls == "whole" or need == 0:
        return [{"k": max(need, 1), "err": ""}]
    return {"frag": [{"k": 3, "err": ""}, {"k": 0, "err": ""}, {"k": need - 3, "err": ""}],
            "fail0": [{"k": 0, "err": "custom"}],
            "fail5": [{"k": 5, "err": ""}, {"k": 0, "err": "EOF"}],
            "eofpartial": [{"k": need - 1, "err": "EOF"}]}[cls]


def step_from_label(lab, slotmap, rng):
    m = re.match(r'(\w+)\((.*)\)', lab)
    name, args = m.group(1), [a.strip('"') for a in m.group(2).split(",")]
    if name == "Chk":
        if args[0].startswith("cross"):
            return {"op": "chk", "cls": "valid", "lang": slotmap[args[1]], "src": slotmap[args[0][5]], "var": rng.randrange(3)}
        return {"op": "chk", "cls": args[0], "lang": slotmap[args[1]], "var": rng.randrange(3)}
    if name == "Ent":
        return {"op": "ent", "cls": args[0], "lang": slotmap[args[1]], "var": rng.randrange(3)}
    if name == "Seed":
        return {"op": "seed", "cls": args[0], "var": rng.randrange(2)}
    if name == "Str":
        return {"op": "str", "n": slotmap[args[0]]}
    if name == "New":
        n = COUNTS[args[0]]
        return {"op": "new", "n": n, "lang": slotmap[args[1]], "script": script_for(args[2], n), "after": "EOF" if args[2] != "whole" else "data", "fill": rng.choice([0, 1, 100, 100, 101])}
    if name == "Swap":
        return {"op": "swap", "kind": args[0]}
    raise Infra("unknown label " + lab)


def record_c13(binary, tier, seed):
    rng = random.Random(seed)
    nodes, edges, init = _hist_graph["g"]
    out_edges = {}
    for (u, v, lab) in edges:
        out_edges.setdefault(u, []).append((v, lab))
    uncovered = set((u, lab) for (u, v, lab) in edges)
    programs = []   # (slotmap, [labels])

    def slotmap_for(l1, l2):
        rest = [x for x in range(10) if x not in (l1, l2)]
        return {"A": l1, "B": l2, "C": rng.choice(rest), "U": rng.choice([-1, -7, -2 ** 31]), "V": rng.choice([10, 11, 255, 2 ** 31])}

    def walk(length, cover, forced=True):
        x, labs = init, []
        # the two first uses, in order: A then B
        for first in (('Chk("valid","A")', 'Chk("valid","B")') if forced else ()):
            v = next(vv for (vv, ll) in out_edges[x] if ll == first)
            uncovered.discard((x, first))
            labs.append(first)
            x = v
        for _ in range(length):
            oe = out_edges[x]
            pick = None
            if cover:
                un = [(vv, ll) for (vv, ll) in oe if (x, ll) in uncovered]
                loops = [(vv, ll) for (vv, ll) in un if vv == x]      # stay here while something is uncovered here
                if loops:
                    pick = rng.choice(loops)
                elif un:
                    pick = rng.choice(un)
                else:                                          # walk towards the nearest state that still has uncovered edges
                    seen, queue, goal = {x: None}, [x], None
                    for y in queue:
                        if any((y, ll) in uncovered for (_, ll) in out_edges[y]):
                            goal = y
                            break
                        for (vv, ll) in out_edges[y]:
                            if vv not in seen:
                                seen[vv] = (y, ll)
                                queue.append(vv)
                    if goal is None:
                        break
                    while seen[goal][0] != x:
                        goal = seen[goal][0]
                    pick = (goal, seen[goal][1])
            if pick is None:
                pick = rng.choice(oe)
            uncovered.discard((x, pick[1]))
            labs.append(pick[1])
            x = pick[0]
        return labs

    pairs = [(a, b) for a in range(10) for b in range(10) if a != b]
    rng.shuffle(pairs)
    npair = 90 if tier == "quick" else 90
    for (a, b) in pairs[:npair]:
        programs.append((slotmap_for(a, b), walk(45 if tier == "quick" else 70, True)))
    stale = 0
    while uncovered:                                     # finish the edge cover (states not on an A-then-B path included)
        a, b = rng.choice(pairs)
        before = len(uncovered)
        programs.append((slotmap_for(a, b), walk(120, True, forced=False)))
        stale = stale + 1 if len(uncovered) == before else 0
        if stale > 20:
            raise Infra("edge cover does not progress: %d edges left" % len(uncovered))
    nlong = 10 if tier == "quick" else 300               # long random histories
    for _ in range(nlong):
        a, b = rng.choice(pairs)
        programs.append((slotmap_for(a, b), walk(rng.randrange(100, 200), False)))
    d = vlib.scratch("verif-hist-")
    lines = []
    cold_first = set()
    for i, (sm, labs) in enumerate(programs):
        body = [step_from_label(l, sm, rng) for l in labs]
        # opening: validation under the unsupported values while the process is cold; closing pass: English is used
        # explicitly, then the first calls of the program are made again with the same arguments - whatever they
        # return now must be what they returned first (history independence, checked through the memo)
        opening = [{"op": "chk", "cls": "valid", "lang": sm["U"], "var": 0}, {"op": "chk", "cls": "valid", "lang": sm["V"], "var": 0},
                   {"op": "ent", "cls": "e16", "lang": sm["U"], "var": 0}]
        english = [{"op": "chk", "cls": "valid", "lang": 2, "var": 0}, {"op": "chk", "cls": "unknown", "lang": 2, "var": 0}]
        # ... but not always: in every third program, and in the first program for each language A, the first validation
        # of the process is the program's own first use (language A, cold), and the unsupported values come after the two
        # first uses (seeded change C13n: a one-entry memo whose zero value matches Language(0))
        if i % 3 == 1 or sm["A"] not in cold_first:
            cold_first.add(sm["A"])
            head = body[:2] + opening + body[2:]
        else:
            head = opening + body
        again = [dict(st) for st in head[:25] if st["op"] in ("chk", "ent", "seed", "str")]
        # generation from the same stream, delivered in the same pieces, before and after a generation of another
        # size from another stream: same arguments, same bytes drawn, same result
        la, lb = sm["A"], sm["B"]
        n1, n2 = rng.choice([(12, 24), (15, 21), (18, 24), (24, 12), (21, 15)])
        cls = rng.choice(["frag", "whole", "frag"])
        rep = {"op": "new", "n": n1, "lang": la, "script": script_for(cls, n1), "after": "data", "fill": 100}
        regen = [{"op": "swap", "kind": "script"}, dict(rep),
                 {"op": "new", "n": n2, "lang": lb, "script": script_for("whole", n2), "after": "data", "fill": 101},
                 dict(rep),
                 {"op": "new", "n": n1, "lang": la, "script": script_for("fail5", n1), "after": "EOF", "fill": 101},
                 dict(rep), {"op": "swap", "kind": "os"}]
        steps = [{"op": "observe"}] + head + english + again + regen + [{"op": "recheck"}]
        prog, out = os.path.join(d, "prog.json"), os.path.join(d, "trace.ndjson")
        json.dump({"steps": steps}, open(prog, "w"))
        vlib.run_harness(binary, ["prog", "-arg", prog, "-seed", str(seed), "-out", out],
                         env_extra=({"GOMAXPROCS": str([1, 2, 4][i % 3])} if i % 4 else None))
        lines += vlib.read_trace(out)
    lines += batch_lines(binary, tier, seed)       # chunks of one caller buffer: no call writes outside (or inside) its slice
    return lines, len(programs), {"fresh_processes": len(programs), "graph_edges_covered": len(edges), "ordered_first_use_pairs": npair,
                                  "exhaustive_edge_cover": True}


RECIPES["C13"] = dict(mc=[mc_history, mc_drive_history, mc_memo], record=record_c13, replay=cold_replay("C13"), prefix_ok=True, props=["C13", "DRIFT"],
                      speaks=lambda e: e.get("op") in ("ByEntropy", "Check", "ToSeed", "String", "NewMnemonic", "Buf", "Recheck"),
                      rule="call histories generated from Drive_History's state graph (every edge covered; every ordered pair of first-used languages; long random walks), each in a fresh "
                           "process; every return is validated natively and against the first result recorded for the same arguments in the same process; caller buffers and "
                           "earlier results are re-inspected; distinct by (operation, arguments)")


# --------------------------------------------------------------------------
# C12: goroutine programs in fresh processes of a -race build
def mc_once(tier, seed):
    base = 'SPECIFICATION Spec\nCONSTANTS G = {g1, g2, g3} L = {en, fr} Calls = 2 OnceImpl = "%s"\nINVARIANTS NoRace LookupSeesFullMap ResultsEqualSequential BuiltAtMostOnce\nPROPERTY ImplementsAtomicMaps\nCHECK_DEADLOCK FALSE\n'
    res = [vlib.run_mc("MC_Once", base % "once", timeout=900)]
    r = vlib.run_mc("MC_Once", base % "nilcheck", timeout=300, workers=4, expect_violation="is violated")
    r["module"] = "MC_Once[nilcheck control]"
    res.append(r)
    if tier == "thorough":
        big = 'SPECIFICATION Spec\nCONSTANTS G = {g1, g2, g3, g4} L = {en, fr} Calls = 1 OnceImpl = "once"\nINVARIANTS NoRace LookupSeesFullMap BuiltAtMostOnce\nCHECK_DEADLOCK FALSE\n'
        r = vlib.run_mc("MC_Once", big, timeout=1500)
        r["module"] = "MC_Once[4 goroutines]"
        res.append(r)
    return res


def apalache_once(tier, seed):
    """inductive invariant of the once protocol (unbounded number of calls), symbolic, with a negative control"""
    import subprocess as sp, time as _t
    d = vlib.scratch("verif-apa-")
    vlib.shutil.copy(os.path.join(vlib.SPEC, "OnceInd.tla"), d)
    res = []
    queries = [("Init => IndInv", ["--cinit=CInit", "--init=Init", "--inv=IndInv", "--length=0"], True),
               ("IndInv /\\ Next => IndInv'", ["--cinit=CInit", "--init=IndInit", "--inv=IndInv", "--length=1"], True),
               ("IndInv => Safe", ["--cinit=CInit", "--init=IndInit", "--inv=Safe", "--length=0"], True),
               ("control: unsynchronised fast path is not inductive", ["--cinit=CInitUnsync", "--init=IndInit", "--inv=IndInv", "--length=1"], False)]
    t0 = _t.time()
    for (name, args, want_ok) in queries:
        r = sp.run(["timeout", "900", "apalache-mc", "check"] + args + ["OnceInd.tla"], cwd=d, capture_output=True, text=True)
        out = r.stdout + r.stderr
        ok = "EXITCODE: OK" in out
        err = "Found 1 error" in out or "violated" in out
        if want_ok and not ok:
            raise Infra("Apalache query failed (%s):\n%s" % (name, out[-1500:]))
        if not want_ok and not err:
            raise Infra("Apalache negative control did not fail (%s):\n%s" % (name, out[-1500:]))
    res.append(dict(module="OnceInd[Apalache: 3 inductiveness queries hold, control fails]", states=4, distinct=4, wall_s=round(_t.time() - t0, 1)))
    return res


_conc_programs = {}


def mc_drive_conc(tier, seed):
    res = []
    for name, consts in (("firstuse", "G = 3 MaxCalls = 2 Ops = {1} SlotsN = 3"), ("allops", "G = 2 MaxCalls = 2 Ops = {1, 2, 3, 4, 5, 6} SlotsN = 2")):
        d = vlib.spec_dir()
        cfg = vlib.write_cfg(d, "Drive_run.cfg", "SPECIFICATION Spec\nCONSTANTS %s\nINVARIANT TypeOK\nCHECK_DEADLOCK FALSE\n" % consts)
        rc, out, wall = vlib.tlc(d, "Drive_Conc.tla", cfg, workers=1, timeout=300, args=["-dump", "states.dump"])
        m = vlib.STAT_RE.findall(out)
        if "No error has been found" not in out or not m:
            raise Infra("Drive_Conc failed:\n" + out[-2000:])
        progs = []
        for ln in open(os.path.join(d, "states.dump")):
            if ln.startswith("prog = "):
                progs.append(json.loads(ln[7:].strip().replace("<<", "[").replace(">>", "]")))
        _conc_programs[name] = [p for p in progs if sum(len(g) for g in p) >= 2 and sum(1 for g in p if g) >= 2]
        res.append(dict(module="Drive_Conc[%s]" % name, states=int(m[-1][0]), distinct=int(m[-1][1]), wall_s=round(wall, 1)))
    return res


OPS = {1: "chk", 2: "chk", 3: "ent", 4: "seed", 5: "str", 6: "new"}


def conc_step(code, slotmap, rng):
    op, slot = OPS[code // 10], "ABC"[code % 10 - 1]
    lang = slotmap[slot]
    if op == "chk":
        cls = rng.choice(["valid", "valid", "valid", "badsum", "nfc", "unknown"]) if code // 10 == 1 else rng.choice(["valid", "sep3000", "short"])
        return {"op": "chk", "cls": cls, "lang": lang, "var": rng.randrange(2)}
    if op == "ent":
        return {"op": "ent", "cls": rng.choice(["e16", "e32", "e16z", "bad17"]), "lang": lang, "var": rng.randrange(2)}
    if op == "seed":
        return {"op": "seed", "cls": rng.choice(["ascii", "jp", "compat", "lit1", "lit2", "lit1", "lit2"]), "var": rng.randrange(2)}
    if op == "str":
        return {"op": "str", "n": lang}
    return {"op": "new", "n": rng.choice([12, 24, 13]), "lang": lang}


def run_conc(binary, goroutines, replicas, seed, d, procs=None):
    prog, out, rl = os.path.join(d, "prog.json"), os.path.join(d, "trace.ndjson"), os.path.join(d, "race")
    for f in os.listdir(d):
        if f.startswith("race"):
            os.unlink(os.path.join(d, f))
    json.dump({"goroutines": goroutines, "replicas": replicas}, open(prog, "w"))
    env = dict(os.environ, VERIF_DATA=os.path.join(vlib.SPEC, "data"), GORACE="log_path=%s atexit_sleep_ms=0 halt_on_error=0" % rl)
    if procs:
        env["GOMAXPROCS"] = str(procs)      # the same programs on 1, 2, 4 processors and on all of them
    r = subprocess.run(["timeout", "300", binary, "conc", "-arg", prog, "-seed", str(seed), "-out", out], capture_output=True, text=True, env=env)
    crash = None
    if r.returncode not in (0, 66):
        # the process died: a crash inside the library under concurrent use (e.g. "fatal error: concurrent map
        # read and map write") is behaviour of the real code, anything else is trouble with the harness
        if "github.com/islishude/bip39." in r.stderr and ("fatal error:" in r.stderr or "panic:" in r.stderr):
            crash = r.stderr[:1500]
        else:
            raise Infra("conc harness failed rc=%d: %s" % (r.returncode, r.stderr[-1500:]))
    text = ""
    for f in sorted(os.listdir(d)):
        if f.startswith("race"):
            text += open(os.path.join(d, f), errors="replace").read()
    if r.returncode == 66 and text.count("WARNING: DATA RACE") == 0:
        raise Infra("race build exited 66 without a report")
    lines = vlib.read_trace(out)
    if crash is not None:
        lines.append(json.dumps({"op": "Crash", "conc": True, "panicked": True, "timeout": False, "panic": [ord(c) for c in crash if ord(c) < 0x110000]}) + "\n")
    ev, n = race_event(text)
    lines.append(ev)
    return lines, n + (1 if crash else 0)


def race_event(text, hung=False):
    """the race detector's reports as one RaceReport event.  Only reports with a frame of the library count; a report
    made of harness frames alone is a defect of the harness (no verdict) - unless a call hung in that process: the
    watchdog then abandons the goroutine, and whatever it writes later races with the harness by construction."""
    reports = [x for x in text.split("==================") if "WARNING: DATA RACE" in x]
    lib = [x for x in reports if "github.com/islishude/bip39" in x]
    if len(lib) < len(reports) and not hung:
        own = next(x for x in reports if x not in lib)
        raise Infra("data race inside the harness itself:\n" + own[:1500])
    t = "==================".join(lib)
    return json.dumps({"op": "RaceReport", "n": len(lib), "text": [ord(c) for c in t[:1500]]}) + "\n", len(lib)


def record_c12(binary, tier, seed):
    rng = random.Random(seed)
    d = vlib.scratch("verif-conc-")
    pairs = [(a, b) for a in range(10) for b in range(10) if a != b]
    rng.shuffle(pairs)
    plan = []
    fu, ao = _conc_programs["firstuse"], _conc_programs["allops"]
    nproc = 120 if tier == "quick" else 3000
    for i in range(nproc):
        a, b = pairs[i % len(pairs)]
        c = rng.choice([x for x in range(10) if x not in (a, b)])
        sm = {"A": a, "B": b, "C": c}
        p = rng.choice(fu if i % 3 else ao)
        reps = rng.choice([1, 1, 2, 4]) if tier == "quick" else rng.choice([1, 1, 2, 4, 8, 11])
        plan.append(([[conc_step(code, sm, rng) for code in g] for g in p if g], reps))
    # control: goroutines that only use the harness
    lines, nraces = [], 0
    from concurrent.futures import ThreadPoolExecutor
    dirs = [vlib.scratch("verif-conc-") for _ in range(8)]

    def one(i):
        return run_conc(binary, plan[i][0], plan[i][1], seed, os.path.join(dirs[i % 8], "p%d" % i), procs=[None, 1, 2, 4, None][i % 5])
    for i in range(len(plan)):
        os.makedirs(os.path.join(dirs[i % 8], "p%d" % i), exist_ok=True)
    with ThreadPoolExecutor(max_workers=8) as ex:
        for (ls, n) in ex.map(one, range(len(plan))):
            lines += ls
            nraces += n
    for dd in dirs:
        vlib.shutil.rmtree(dd, ignore_errors=True)
    # under the race detector: overlapping NewMnemonic calls on one injected source; callers holding different texts in
    # non-normal forms, validating and deriving at the same time; batch generation from one caller buffer cut into
    # chunks; cold concurrent starts
    scen = [(["overlap", "-tier", tier, "-seed", str(seed)], {"overlap_seed": seed, "overlap_tier": tier})]
    for k in range(4 if tier == "quick" else 24):
        sd = seed * 100 + k
        scen.append((["concuni", "-tier", "quick", "-seed", str(sd)], {"concuni_seed": sd, "concuni_tier": "quick"}) if k % 4 else
                    (["batch", "-tier", "quick", "-seed", str(sd)], {"batch_seed": sd, "batch_tier": "quick"}))
    scen.append((["concheck", "-tier", tier, "-seed", str(seed)], {"concheck_seed": seed, "concheck_tier": tier}))
    # cold starts: mostly of the kind with heavy read traffic around the first uses (round = 1 mod 3)
    for k in ([1, 4, 7, 10, 13, 16, 19, 22, 0, 2] if tier == "quick" else [1 + 3 * j for j in range(60)] + list(range(30))):
        scen.append((["cold", "-lang", str((seed + 3 * k) % 10), "-seed", str(seed), "-n", str(k)], {"cold": True, "cold_lang": (seed + 3 * k) % 10, "cold_seed": seed, "cold_round": k}))
    for (a, cf) in scen:
        ls, text = run_scenario(binary, a, cf, race=True)
        lines += ls
        ev, n = race_event(text, hung=any('"timeout":true' in x for x in ls))
        lines.append(ev)
        nraces += n
    return lines, len(plan), {"fresh_race_build_processes": len(plan), "race_reports": nraces,
                              "programs_available": {"firstuse": len(fu), "allops": len(ao)}}


def replay_c12(path, binary):
    """re-run the recorded goroutines concurrently in fresh -race processes (schedules vary: up to 20 attempts)"""
    d = vlib.scratch("verif-conc-")
    out, rl = os.path.join(d, "trace.ndjson"), os.path.join(d, "race")
    for attempt in range(20):
        for f in os.listdir(d):
            if f.startswith("race"):
                os.unlink(os.path.join(d, f))
        env = dict(os.environ, VERIF_DATA=os.path.join(vlib.SPEC, "data"), GORACE="log_path=%s atexit_sleep_ms=0 halt_on_error=0" % rl)
        r = subprocess.run(["timeout", "300", binary, "replayconc", "-arg", path, "-out", out], capture_output=True, text=True, env=env)
        if r.returncode not in (0, 66):
            raise Infra("replayconc failed rc=%d: %s" % (r.returncode, r.stderr[-1500:]))
        text = "".join(open(os.path.join(d, f), errors="replace").read() for f in sorted(os.listdir(d)) if f.startswith("race"))
        lines = vlib.read_trace(out)
        lines.append(race_event(text)[0])
        v = vlib.validate(lines, ["C12"], shards=1)
        mine = [b for b in v.bad if b[1] == "C12"]
        if mine:
            return (False, "attempt %d: %d failing events (%s)" % (attempt + 1, len(mine), text[:200].replace("\n", " | ")))
    return (True, "20 concurrent re-executions, no race report and all results equal to the sequential ones")


RECIPES["C12"] = dict(mc=[mc_once, apalache_once, mc_drive_conc, mc_calls], record=record_c12, replay=replay_c12, props=["C12"], race=True, no_confirm=True,
                      speaks=lambda e: e.get("conc") or e.get("op") == "RaceReport",
                      rule="goroutine programs generated by Drive_Conc (all first-use shapes of 3 goroutines x 3 language slots, all operation mixes of 2 goroutines), language slots "
                           "rotating through all ordered pairs, 1-11 replicas of each goroutine, each in a fresh process of a -race build; every return validated natively and "
                           "against the same call run alone; distinct by (operation, arguments, goroutine)")


# --------------------------------------------------------------------------
# C17: the update-wordlist tool, run against a local server
import threading, http.server, unicodedata, socket
_gen_structs = []
FILES = ["chinese_simplified", "chinese_traditional", "english", "french", "italian", "japanese", "korean", "spanish", "czech", "portuguese"]


def mc_generator(tier, seed):
    d = vlib.spec_dir()
    n = 4 if tier == "quick" else 5
    cfg = vlib.write_cfg(d, "Gen_run.cfg", 'SPECIFICATION Spec\nCONSTANTS MaxLines = %d Render = "ifnonempty"\nINVARIANTS Faithful NoBlankEntries TableWellFormed\nCHECK_DEADLOCK FALSE\n' % n)
    rc, out, wall = vlib.tlc(d, "MC_Generator.tla", cfg, workers=4, timeout=600, args=["-dump", "states.dump"])
    m = vlib.STAT_RE.findall(out)
    if "No error has been found" not in out or not m:
        raise Infra("MC_Generator failed:\n" + out[-2000:])
    del _gen_structs[:]
    for ln in open(os.path.join(d, "states.dump")):
        if ln.startswith("input = "):
            _gen_structs.append(json.loads(ln[8:].strip().replace("<<", "[").replace(">>", "]")))
    res = [dict(module="MC_Generator", states=int(m[-1][0]), distinct=int(m[-1][1]), wall_s=round(wall, 1))]
    cfg2 = 'SPECIFICATION Spec\nCONSTANTS MaxLines = 2 Render = "keep"\nINVARIANTS Faithful\nCHECK_DEADLOCK FALSE\n'
    r = vlib.run_mc("MC_Generator", cfg2, workers=1, timeout=300, expect_violation="Faithful")
    r["module"] = "MC_Generator[keep-blank-lines control]"
    res.append(r)
    return res


_genrun_scen = []   # upstream assignments reached by MC_GenRun (tuples of line structures), concretised by record_c17


def mc_genrun(tier, seed):
    """a RUN of the tool over several targets (every order, every assignment of small upstream texts, empty or longer old
    files): each written file holds its own upstream's lines; two negative controls (shared scratch slice returned whole,
    file opened without truncation)"""
    inv = "INVARIANTS TypeOK RunFaithful Untouched DoneMeansAll OrderFree\nPROPERTIES OneFilePerStep\nCHECK_DEADLOCK FALSE\n"
    def cfg(nt, ml, words, scratch="fresh", write="trunc"):
        return 'SPECIFICATION Spec\nCONSTANTS NT = %d MaxLen = %d Words = {%s} Scratch = "%s" Write = "%s"\n' % (
            nt, ml, ", ".join('"%s"' % w for w in words), scratch, write) + inv
    res = []
    sizes = [(2, 2, "ab"), (3, 2, "a")] if tier == "quick" else [(2, 3, "ab"), (3, 3, "a")]
    del _genrun_scen[:]
    for nt, ml, words in sizes:
        d = vlib.spec_dir()
        c = vlib.write_cfg(d, "GenRun_run.cfg", cfg(nt, ml, words))
        rc, out, wall = vlib.tlc(d, "MC_GenRun.tla", c, workers=4, timeout=900, args=["-dump", "states.dump"])
        m = vlib.STAT_RE.findall(out)
        if "No error has been found" not in out or not m:
            raise Infra("MC_GenRun failed:\n" + out[-2000:])
        seen = set()
        for ln in open(os.path.join(d, "states.dump")):
            if ln.startswith("/\\ upstream = ") and ln not in seen:
                seen.add(ln)
                _genrun_scen.append(json.loads(ln[len("/\\ upstream = "):].strip().replace("<<", "[").replace(">>", "]")))
        res.append(dict(module="MC_GenRun[NT=%d MaxLen=%d Words=%s]" % (nt, ml, words), states=int(m[-1][0]), distinct=int(m[-1][1]), wall_s=round(wall, 1)))
    for scratch, write, label in (("shared", "trunc", "shared-scratch control"), ("fresh", "notrunc", "no-truncate control")):
        r = vlib.run_mc("MC_GenRun", cfg(2, 2, "a", scratch, write), workers=1, timeout=300, expect_violation="RunFaithful")
        r["module"] = "MC_GenRun[%s]" % label
        res.append(r)
    return res


def _letters():
    pools = {
        "latin": [chr(c) for c in list(range(0x61, 0x7B)) + list(range(0x41, 0x5B)) + list(range(0xC0, 0x17F)) if unicodedata.category(chr(c))[0] == "L"],
        "marks": [chr(c) for c in (0x300, 0x301, 0x302, 0x303, 0x308, 0x30C, 0x327, 0x323, 0x3099, 0x309A, 0x94D, 0x93E)],
        "hiragana": [chr(c) for c in range(0x3041, 0x3097)],
        "hangul": [chr(c) for c in range(0xAC00, 0xD7A4, 37)] + [chr(c) for c in list(range(0x1100, 0x1113)) + list(range(0x1161, 0x1176)) + list(range(0x11A8, 0x11C3))],
        # Han: the basic block, extension A, and the ideographs beyond the BMP (extensions B..F, compatibility supplement)
        "han": [chr(c) for c in range(0x4E00, 0x9FA6, 11)] + [chr(c) for c in range(0x3400, 0x4DB6, 211)]
               + [chr(c) for c in list(range(0x20000, 0x2A6D7, 1499)) + [0x20000, 0x20BB7, 0x2A6D6, 0x2A700, 0x2B820, 0x2CEB0, 0x2F800, 0x2F9FF, 0x2FA1D]],
        "other": ["ǅ", "ʰ", "ǈ", "ß", "ı", "İ", "ĳ", "ſ", "Ω", "я", "ж", "ﬁ", "ａ"],
    }
    for k, v in pools.items():
        for ch in v:
            assert unicodedata.category(ch)[0] in ("L", "M"), (k, hex(ord(ch)), unicodedata.category(ch))
    return pools


def concretise_lines(struct, rng, pools):
    """a line structure over {"a","b","LF"} -> text: 'a' = a letter, 'b' = a letter followed by a combining mark"""
    script = rng.choice(["latin", "hiragana", "hangul", "han", "other", "latin"])
    out = []
    for x in struct:
        if x == "LF":
            out.append("\n")
        elif x == "a":
            # now and then a word that begins with a combining mark (still "letters and combining marks")
            if (not out or out[-1] == "\n") and rng.random() < 0.15:
                out.append(rng.choice(pools["marks"]))
            out.append(rng.choice(pools[script]))
        else:
            out.append(rng.choice(pools[script]) + rng.choice(pools["marks"]))
    return "".join(out)


def random_list(rng, pools, nlines):
    out = []
    for _ in range(nlines):
        if rng.random() < 0.1:
            out.append("")
            continue
        script = rng.choice(["latin", "latin", "hiragana", "hangul", "han", "other"])
        w = "".join(rng.choice(pools[script]) + (rng.choice(pools["marks"]) if rng.random() < 0.2 else "") for _ in range(rng.randrange(1, 9)))
        if out and rng.random() < 0.05:
            w = out[-1] or w                         # the same word twice in a row: the output keeps both
        if rng.random() < 0.03:
            w = rng.choice(pools["marks"]) + w       # a word beginning with a mark
        out.append(w)
    s = "\n".join(out)
    return s + ("\n" if rng.random() < 0.6 else "")


class _Srv(http.server.BaseHTTPRequestHandler):
    files = {}
    faults = {}
    protocol_version = "HTTP/1.1"
    served = 0

    def do_GET(self):
        name = self.path.rsplit("/", 1)[-1]
        if name not in _Srv.files:
            self.send_response(404)
            self.send_header("Content-Length", "0")
            self.end_headers()
            return
        b = _Srv.files[name]
        _Srv.served += 1
        self.send_response(200)
        # what servers say about a .txt file varies: with a charset, without one, nothing at all, a binary type
        ct = ["text/plain; charset=utf-8", "text/plain", None, "application/octet-stream", "text/plain; charset=UTF-8", "text/plain"][(_Srv.served // 2) % 6]
        if ct:
            self.send_header("Content-Type", ct)
        # a client that says it accepts gzip gets it, now and then: sized (Content-Length of the compressed body, as a
        # CDN serving pre-compressed files does) or chunked
        if "gzip" in (self.headers.get("Accept-Encoding") or "") and _Srv.served % 3 == 0:
            import gzip as _gz
            z = _gz.compress(b, 6)
            self.send_header("Content-Encoding", "gzip")
            if _Srv.served % 2 == 0:
                self.send_header("Content-Length", str(len(z)))
                self.end_headers()
                self.wfile.write(z)
            else:
                self.send_header("Transfer-Encoding", "chunked")
                self.end_headers()
                for i in range(0, len(z), 997):
                    piece = z[i:i + 997]
                    self.wfile.write(b"%x\r\n" % len(piece) + piece + b"\r\n")
                self.wfile.write(b"0\r\n\r\n")
            return
        if _Srv.faults.get(name, 0) > 0:
            # a transfer that breaks off: the declared length is never reached, the connection is dropped mid-body
            _Srv.faults[name] -= 1
            cut = (len(b) * (1 + _Srv.served % 5)) // 7
            self.send_header("Content-Length", str(len(b)))
            self.end_headers()
            self.wfile.write(b[:cut])
            self.wfile.flush()
            try:
                self.connection.shutdown(socket.SHUT_RDWR)
            except OSError:
                pass
            self.close_connection = True
            return
        if _Srv.served % 2:
            # every other file arrives in chunked transfer encoding, in pieces of uneven size with a flush after
            # each: a client has to keep reading until the body ends
            self.send_header("Transfer-Encoding", "chunked")
            self.end_headers()
            i, step = 0, 1 + (_Srv.served * 37) % 1500
            while i < len(b):
                piece = b[i:i + step]
                self.wfile.write(b"%x\r\n" % len(piece) + piece + b"\r\n")
                self.wfile.flush()
                i += step
                step = 1 + (step * 7) % 4093
            self.wfile.write(b"0\r\n\r\n")
        else:
            self.send_header("Content-Length", str(len(b)))
            self.end_headers()
            self.wfile.write(b)

    def do_HEAD(self):
        # like the real upstream (and any file server): a HEAD answer carries the length of the body
        name = self.path.rsplit("/", 1)[-1]
        if name not in _Srv.files:
            self.send_response(404)
            self.send_header("Content-Length", "0")
            self.end_headers()
            return
        self.send_response(200)
        self.send_header("Content-Length", str(len(_Srv.files[name])))
        self.send_header("Content-Type", "text/plain; charset=utf-8")
        self.end_headers()

    def log_message(self, *a):
        pass


def build_tool():
    out = os.path.join(vlib.scratch("verif-bin-"), "update-wordlist")
    r = subprocess.run(["go", "build", "-tags", "verif", "-o", out, "./update-wordlist"], cwd=vlib.REPO, env=vlib.GOENV, capture_output=True, text=True)
    if r.returncode != 0:
        raise Infra("update-wordlist does not build with -tags verif:\n" + r.stderr[-2000:])
    return out


def run_tool(tool, binary, port, inputs, golden, label, d, faults=None, other_fs=False):
    """inputs: file -> bytes.  Returns Gen event lines.  faults: file -> number of requests for it that break off
    mid-body; the tool is then run again (as a maintainer would) until it reports success."""
    ind, outd = os.path.join(d, "in"), os.path.join(d, "out")
    vlib.shutil.rmtree(ind, ignore_errors=True)
    os.makedirs(ind)
    # the output directory is kept from run to run: like `make update-wordlist`, the tool regenerates over the
    # files of the previous run (longer or shorter ones)
    os.makedirs(os.path.join(outd, "internal", "wordlist"), exist_ok=True)
    for f, b in inputs.items():
        open(os.path.join(ind, f + ".txt"), "wb").write(b)
    _Srv.files = {f + ".txt": b for f, b in inputs.items()}
    _Srv.faults = {f + ".txt": n for f, n in (faults or {}).items()}
    # the tool runs as one user in one environment from run to run: home and cache directories persist like the output
    home = os.path.join(d, "home")
    os.makedirs(os.path.join(home, ".cache"), exist_ok=True)
    tenv = dict(os.environ, VERIF_WORDLIST_URL="http://127.0.0.1:%d" % port, HOME=home, XDG_CACHE_HOME=os.path.join(home, ".cache"),
                XDG_CONFIG_HOME=os.path.join(home, ".config"), TMPDIR=os.path.join(home, "tmp"))
    os.makedirs(tenv["TMPDIR"], exist_ok=True)
    other = None
    if other_fs:
        # the temporary directory on another file system than the tree being regenerated (tmpfs /tmp, a bind mount)
        try:
            if os.path.isdir("/dev/shm") and os.stat("/dev/shm").st_dev != os.stat(outd).st_dev:
                other = vlib.tempfile.mkdtemp(prefix="verif-tmp-", dir="/dev/shm")
                tenv["TMPDIR"] = other
        except OSError:
            other = None
    for attempt in range(2 + sum((faults or {}).values())):
        r = subprocess.run(["timeout", "120", tool], cwd=outd, env=tenv, capture_output=True, text=True)
        if r.returncode == 0 or not faults:
            break
    # (a tool that still fails is not special: what it left in the output directory is compared with its input below)
    _Srv.faults = {}
    if other:
        vlib.shutil.rmtree(other, ignore_errors=True)
    args, tr = os.path.join(d, "args.json"), os.path.join(d, "gen.ndjson")
    json.dump({"indir": ind, "outdir": outd, "golden": golden, "label": label + (" tool_exit=%d" % r.returncode)}, open(args, "w"))
    vlib.run_harness(binary, ["genparse", "-arg", args, "-out", tr], env_extra={"VERIF_REPO": vlib.REPO})
    return vlib.read_trace(tr)


def golden_tool_lines(binary):
    """the generator run on the canonical lists: what it writes must be the golden (and the committed) lists"""
    tool = build_tool()
    srv = http.server.ThreadingHTTPServer(("127.0.0.1", 0), _Srv)
    threading.Thread(target=srv.serve_forever, daemon=True).start()
    d = vlib.scratch("verif-gen-")
    try:
        gold = json.load(open(os.path.join(vlib.SPEC, "data", "wordlists.json")))
        inputs = {f: ("\n".join("".join(chr(c) for c in w) for w in gold["lists"][i]) + "\n").encode() for i, f in enumerate(FILES)}
        return run_tool(tool, binary, srv.server_address[1], inputs, True, "golden", d)
    finally:
        srv.shutdown()


def record_c17(binary, tier, seed):
    rng = random.Random(seed)
    pools = _letters()
    tool = build_tool()
    srv = http.server.ThreadingHTTPServer(("127.0.0.1", 0), _Srv)
    port = srv.server_address[1]
    threading.Thread(target=srv.serve_forever, daemon=True).start()
    d = vlib.scratch("verif-gen-")
    lines, runs = [], 0
    try:
        gold = json.load(open(os.path.join(vlib.SPEC, "data", "wordlists.json")))
        inputs = {f: ("\n".join("".join(chr(c) for c in w) for w in gold["lists"][i]) + "\n").encode() for i, f in enumerate(FILES)}
        lines += run_tool(tool, binary, port, inputs, True, "golden", d)
        runs += 1
        structs = [s for s in _gen_structs]
        rng.shuffle(structs)
        nstruct = 12 if tier == "quick" else 200
        for k in range(nstruct):
            inputs = {f: concretise_lines(structs[(k * 10 + i) % len(structs)], rng, pools).encode() for i, f in enumerate(FILES)}
            lines += run_tool(tool, binary, port, inputs, False, "structure", d, other_fs=(k % 3 == 1))
            runs += 1
        # runs enumerated by MC_GenRun: which targets get how many lines (blank lines, final LF or none), served together
        # in one run over the output of the previous one - a target's file depends on its own upstream only, whatever
        # the tool read for the other targets and in whatever order it walks them
        scen = [u for u in _genrun_scen if len({len([x for x in t if x == "LF"]) for t in u}) > 1] or list(_genrun_scen)
        rng.shuffle(scen)
        for k, u in enumerate(scen[:(6 if tier == "quick" else 120)]):
            rot = rng.randrange(len(u))
            inputs = {f: concretise_lines(u[(i + rot) % len(u)] * (1 + (i + k) % 3), rng, pools).encode() for i, f in enumerate(FILES)}
            lines += run_tool(tool, binary, port, inputs, False, "genrun", d, other_fs=(k % 4 == 3))
            runs += 1
        # very long words (a line-oriented reader with a token limit would drop them and everything after)
        for n in ((65535, 65536, 70000) if tier == "quick" else (4095, 4096, 65535, 65536, 65537, 70000, 200000, 1 << 20)):
            w = "".join(rng.choice(pools["latin"]) for _ in range(64)) * (n // 64 + 1)
            inputs = {f: ("alpha\n" + w[:n] + "\nomega\n" + (rng.choice(pools["hangul"]) * (n // 3))[:n // 3] + "\nlast").encode() for f in FILES}
            lines += run_tool(tool, binary, port, inputs, False, "longword", d)
            runs += 1
        # transfers that break off mid-body (the connection is dropped): whatever the tool does about it (give up, or
        # ask again), a run that reports success has written exactly the lists
        for k in range(3 if tier == "quick" else 30):
            inputs = {f: random_list(rng, pools, rng.choice([3, 50, 2048])).encode() for f in FILES}
            fl = {f: rng.choice([1, 1, 2]) for f in rng.sample(FILES, rng.choice([1, 2, 4]))}
            lines += run_tool(tool, binary, port, inputs, False, "broken-transfer", d, faults=fl)
            runs += 1
        nbig = 7 if tier == "quick" else 100
        for k in range(nbig):
            inputs = {f: random_list(rng, pools, rng.choice([0, 1, 2, 10, 100, 2048, 5000])).encode() for f in FILES}
            lines += run_tool(tool, binary, port, inputs, False, "random", d, other_fs=(k % 3 == 1))
            runs += 1
            if k % 2 == 0:
                # upstream changes without changing its size: the same lines in another order, one word replaced by
                # another of the same length
                def same_size(b):
                    ls = b.decode().split("\n")
                    if len(ls) > 2:
                        i, j = rng.sample(range(len(ls)), 2)
                        ls[i], ls[j] = ls[j], ls[i]
                    return "\n".join(ls).encode()
                inputs2 = {f: same_size(b) for f, b in inputs.items()}
                lines += run_tool(tool, binary, port, inputs2, False, "same-size-change", d)
                runs += 1
    finally:
        srv.shutdown()
    return lines, runs, {"tool_runs": runs, "line_structures_available": len(_gen_structs), "run_scenarios_available": len(_genrun_scen)}


def replay_c17(path, binary):
    rp = json.load(open(path))
    ev = next((e for e in rp["unit"] if e.get("op") == "Gen"), None)
    if ev is None:
        raise Infra("C17 replay file has no Gen event")
    tool = build_tool()
    srv = http.server.ThreadingHTTPServer(("127.0.0.1", 0), _Srv)
    threading.Thread(target=srv.serve_forever, daemon=True).start()
    try:
        def raw(us):
            return b"".join(chr(u).encode() if u >= 0 else bytes([-1 - u]) for u in us)
        text = raw(ev["input"])
        # the ten inputs of the recorded run, each served to its own target (targets missing from the unit get the first input)
        own = {raw(e["file"]).decode(): raw(e["input"]) for e in rp["unit"] if e.get("op") == "Gen"}
        inputs = {f: own.get(f, text) for f in FILES}
        d = vlib.scratch("verif-gen-")
        # as in the recorded run, the tool regenerates over the (longer) output of an earlier run
        longer = {f: b + b"\n" + b"\n".join(b"zzzzzzzzzzzzzzzzzzzzzzzz" for _ in range(40)) + b"\n" for f, b in inputs.items()}
        run_tool(tool, binary, srv.server_address[1], longer, False, "replay-previous-run", d)
        # ... and over a run whose upstream had the same size but other content
        def other_of(b):
            ls = b.split(b"\n")
            return b"\n".join(reversed(ls)) if len(ls) > 1 else bytes(reversed(b))
        others = {f: other_of(b) for f, b in inputs.items()}
        if all(len(others[f]) == len(inputs[f]) for f in FILES) and others != inputs:
            run_tool(tool, binary, srv.server_address[1], others, False, "replay-same-size-run", d)
        lines = run_tool(tool, binary, srv.server_address[1], inputs, False, "replay", d)
        lines += run_tool(tool, binary, srv.server_address[1], inputs, False, "replay-tmp-on-other-fs", d, other_fs=True)
        lines += run_tool(tool, binary, srv.server_address[1], inputs, False, "replay-broken-transfer", d, faults={f: 1 for f in FILES[::3]})
        if len(set(inputs.values())) > 1:
            # the same inputs handed to other targets (the tool walks its targets in an order of its own)
            rot = {f: inputs[FILES[(i + 3) % len(FILES)]] for i, f in enumerate(FILES)}
            lines += run_tool(tool, binary, srv.server_address[1], rot, False, "replay-rotated", d)
    finally:
        srv.shutdown()
    v = vlib.validate(lines, ["C17"], shards=1)
    mine = [b for b in v.bad if b[1] == "C17"]
    return (len(mine) == 0, "served the recorded inputs of the run to the ten targets: %d Gen events, %d failing" % (sum(1 for x in lines if '"op":"Gen"' in x), len(mine)))


RECIPES["C17"] = dict(mc=[mc_generator, mc_genrun], record=record_c17, replay=replay_c17, props=["C17"],
                      speaks=lambda e: e.get("op") == "Gen",
                      rule="the real update-wordlist tool (built with -tags verif) run against a local server: the golden lists (output must equal golden and committed lists), "
                           "line structures enumerated by MC_Generator (blank lines, trailing LF or not) concretised with letters and marks of Latin/Hiragana/Hangul/Han/other scripts, "
                           "random lists of 0..5000 lines; outputs parsed with go/parser and type-checked; distinct by (target file, input)")
