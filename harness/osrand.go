package main

import (
	"crypto/rand"
	"io"
)

func osRandReader() io.Reader { return rand.Reader }
