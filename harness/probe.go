package main

import (
	"context"
	"reflect"
	"time"

	"github.com/islishude/bip39"
)

// probeNewMethods calls every method of the Language type other than String - there is none at the pinned commit;
// a later version may add some (CheckContext, MarshalText, Name ...) - with plain arguments a caller could pass:
// a context that is already cancelled and one that expires at once, a valid sentence of the language, small
// numbers, a few bytes.  Nothing is claimed about what these calls return; the point is what the rest of the API
// does afterwards (a new entry point that shares lazily built state with the old ones).
func probeNewMethods(lang int64) {
	v := reflect.ValueOf(bip39.Language(lang))
	t := v.Type()
	ctxT := reflect.TypeOf((*context.Context)(nil)).Elem()
	r := newRng(lang, "probe")
	for i := 0; i < t.NumMethod(); i++ {
		m := t.Method(i)
		if m.Name == "String" {
			continue
		}
		for variant := 0; variant < 2; variant++ {
			var args []reflect.Value
			ok := true
			mt := m.Type
			n := mt.NumIn()
			if mt.IsVariadic() {
				n--
			}
			for j := 1; j < n; j++ { // (in 0 is the receiver)
				pt := mt.In(j)
				switch {
				case pt == ctxT:
					ctx, cancel := context.WithCancel(context.Background())
					if variant == 0 {
						cancel()
					} else {
						ctx, cancel = context.WithTimeout(context.Background(), 30*time.Microsecond)
					}
					defer cancel()
					args = append(args, reflect.ValueOf(ctx))
				case pt.Kind() == reflect.String:
					l := int(lang)
					if l < 0 || l > 9 {
						l = 2
					}
					args = append(args, reflect.ValueOf(sentence(indicesOf(r.bytes(16)), l, " ")).Convert(pt))
				case pt.Kind() >= reflect.Int && pt.Kind() <= reflect.Uint64:
					args = append(args, reflect.ValueOf(12).Convert(pt))
				case pt.Kind() == reflect.Slice && pt.Elem().Kind() == reflect.Uint8:
					args = append(args, reflect.ValueOf(r.bytes(16)).Convert(pt))
				default:
					if pt.Kind() == reflect.Interface || pt.Kind() == reflect.Func || pt.Kind() == reflect.Chan {
						ok = false
					} else {
						args = append(args, reflect.Zero(pt))
					}
				}
			}
			if !ok {
				continue
			}
			o := guarded(func() { v.Method(i).Call(args) })
			emit(o.into(Event{"op": "Probe", "method": units(m.Name), "lang": langField(lang), "variant": variant}))
		}
	}
}
