package main

import (
	"bytes"
	"io"
	"os"
	"runtime"
	"strconv"
	"sync"
	"time"

	"github.com/islishude/bip39"
)

// Overlapping NewMnemonic calls on one injected source (C06, C12).  The source tells its callers apart by
// goroutine (every call runs in its own goroutine), gives each call its own byte stream and records what it
// delivered to whom; it can hold one call inside Read - after some bytes have been delivered - while another call
// runs to completion.  The gate is in the harness's reader, not in the library.  Each return is logged with the
// bytes that call's reads delivered ("delivered"); Trace.tla requires the mnemonic to be their encoding.

func goid() uint64 {
	var buf [64]byte
	b := buf[:runtime.Stack(buf[:], false)]
	b = bytes.TrimPrefix(b, []byte("goroutine "))
	if i := bytes.IndexByte(b, ' '); i > 0 {
		b = b[:i]
	}
	n, _ := strconv.ParseUint(string(b), 10, 64)
	return n
}

type callSrc struct {
	fill      *rng
	delivered []byte
	script    []rstep
	pos       int
	gateAt    int // hold the call inside Read once this many bytes have been delivered (-1: never)
	gate      chan struct{}
	stalled   chan struct{}
	passed    bool
}

type gidReader struct {
	mu    sync.Mutex
	calls map[uint64]*callSrc
}

func (g *gidReader) Read(p []byte) (int, error) {
	g.mu.Lock()
	cs := g.calls[goid()]
	g.mu.Unlock()
	if cs == nil { // a read from a goroutine the harness did not start: deliver nothing, fail
		return 0, customErr{}
	}
	if cs.gateAt >= 0 && !cs.passed && len(cs.delivered) >= cs.gateAt {
		cs.passed = true
		close(cs.stalled)
		<-cs.gate
	}
	st := rstep{K: len(p)}
	if cs.pos < len(cs.script) {
		st = cs.script[cs.pos]
		cs.pos++
	}
	k := st.K
	if k > len(p) {
		k = len(p)
	}
	b := cs.fill.bytes(k)
	copy(p, b)
	cs.delivered = append(cs.delivered, b...)
	return k, errOfKind(st.Err)
}

type ovResult struct {
	n, lang int64
	out     string
	err     error
	cs      *callSrc
	o       outcome
}

func (g *gidReader) start(n, lang int64, cs *callSrc, done chan<- ovResult) {
	go func() {
		g.mu.Lock()
		g.calls[goid()] = cs
		g.mu.Unlock()
		r := ovResult{n: n, lang: lang, cs: cs}
		func() {
			defer func() {
				if p := recover(); p != nil {
					r.o.panicked, r.o.panicTxt = true, "panic in NewMnemonic"
				}
			}()
			r.out, r.err = bip39.NewMnemonic(int(n), bip39.Language(lang))
		}()
		done <- r
	}()
}

func emitOv(r ovResult, role string, sc int) {
	e := Event{"op": "NewMnemonic", "n": bigRec(r.n), "lang": langField(r.lang), "out": units(r.out), "err": errRec(r.err), "errid": errID(r.err),
		"delivered": ints(r.cs.delivered), "conc": true, "role": role, "scenario": sc}
	emit(r.o.into(e))
}

var serialisedRuns int

func runOverlap(tier string, seed int64) {
	concMode = true
	r := newRng(seed, "overlap")
	g := &gidReader{calls: map[uint64]*callSrc{}}
	swapSource(g, "overlap")
	count := map[string]int{"quick": 200, "thorough": 4000}[tier]
	counts := []int64{12, 15, 18, 21, 24}
	for sc := 0; sc < count; sc++ {
		emit(Event{"op": "Cut", "source": "overlap", "overlap_seed": seed, "overlap_tier": tier})
		nA, nB := counts[r.intn(5)], counts[r.intn(5)]
		lA, lB := int64(r.intn(10)), int64(r.intn(10))
		needA := int(nA + nA/3)
		// now and then a call that fails first (a failing call must leave nothing behind)
		if sc%3 != 0 {
			done := make(chan ovResult, 1)
			kind := []string{"custom", "EOF", "temporary", "UEOF"}[r.intn(4)]
			k := r.intn(needA)
			sc0 := []rstep{{K: k}, {K: 0, Err: kind}}
			if k == 0 {
				sc0 = sc0[1:]
			}
			g.start(counts[r.intn(5)], int64(r.intn(10)), &callSrc{fill: newRng(seed, "ov/f/"+strconv.Itoa(sc)), script: sc0, gateAt: -1}, done)
			emitOv(<-done, "failing-first", sc)
		}
		kA := []int{0, 1, 8, needA - 1, r.intn(needA)}[r.intn(5)]
		a := &callSrc{fill: newRng(seed, "ov/a/"+strconv.Itoa(sc)), gateAt: kA, gate: make(chan struct{}), stalled: make(chan struct{})}
		if kA > 0 {
			a.script = []rstep{{K: kA}}
		}
		doneA, doneB := make(chan ovResult, 1), make(chan ovResult, 1)
		g.start(nA, lA, a, doneA)
		heldA := true
		var ra ovResult
		select {
		case <-a.stalled: // A is inside Read, kA bytes delivered
		case ra = <-doneA: // the call returned without asking for more (it did not read to the end): nothing to hold
			heldA = false
		}
		b := &callSrc{fill: newRng(seed, "ov/b/"+strconv.Itoa(sc)), gateAt: -1}
		if sc%2 == 0 {
			b.script = []rstep{{K: 3}, {K: 0}, {K: 40}}
		}
		g.start(nB, lB, b, doneB)
		// B normally completes while A is held.  A library may legitimately serialise its use of the source (a lock
		// held across the read): then B cannot finish before A, so A is released after a grace period.
		var rb ovResult
		if heldA {
			select {
			case rb = <-doneB:
				close(a.gate)
			case <-time.After(250 * time.Millisecond):
				close(a.gate)
				rb = <-doneB
				serialisedRuns++
			}
			ra = <-doneA
		} else {
			rb = <-doneB
		}
		emitOv(rb, "B-runs-while-A-is-held", sc)
		emitOv(ra, "A-held-in-Read", sc)
	}
	// many callers at full speed, nobody held: every call still gets its own stream and must return the encoding of
	// exactly the bytes its own reads delivered (a buffer shared between calls shows up as a foreign byte)
	G, K := 8, 150
	if tier == "thorough" {
		G, K = 16, 1500
	}
	for round := 0; round < 2; round++ {
		emit(Event{"op": "Cut", "source": "overlap", "overlap_seed": seed, "overlap_tier": tier})
		res := make([][]ovResult, G)
		startCh := make(chan struct{})
		var wg sync.WaitGroup
		for gi := 0; gi < G; gi++ {
			wg.Add(1)
			go func(gi int) {
				defer wg.Done()
				id := goid()
				rr := newRng(seed, "hammer/"+strconv.Itoa(round)+"/"+strconv.Itoa(gi))
				<-startCh
				for i := 0; i < K; i++ {
					cs := &callSrc{fill: newRng(seed, "hm/"+strconv.Itoa(round)+"/"+strconv.Itoa(gi)+"/"+strconv.Itoa(i)), gateAt: -1}
					if i%5 == 4 {
						cs.script = []rstep{{K: 1 + rr.intn(9)}, {K: 0}}
					}
					g.mu.Lock()
					g.calls[id] = cs
					g.mu.Unlock()
					r := ovResult{n: counts[rr.intn(5)], lang: int64(rr.intn(10)), cs: cs}
					func() {
						defer func() {
							if p := recover(); p != nil {
								r.o.panicked, r.o.panicTxt = true, "panic in NewMnemonic"
							}
						}()
						r.out, r.err = bip39.NewMnemonic(int(r.n), bip39.Language(r.lang))
					}()
					res[gi] = append(res[gi], r)
				}
			}(gi)
		}
		// meanwhile other callers import entropies of their own (NewMnemonicByEntropy has nothing to do with the source)
		type imp struct {
			ent  []byte
			lang int64
			out  string
			err  error
		}
		imps := make([][]imp, G/2)
		for gi := 0; gi < G/2; gi++ {
			wg.Add(1)
			go func(gi int) {
				defer wg.Done()
				rr := newRng(seed, "hammer-import/"+strconv.Itoa(round)+"/"+strconv.Itoa(gi))
				<-startCh
				for i := 0; i < K; i++ {
					x := imp{ent: rr.bytes(sizes[rr.intn(5)]), lang: int64(rr.intn(10))}
					func() {
						defer func() { recover() }()
						x.out, x.err = bip39.NewMnemonicByEntropy(x.ent, bip39.Language(x.lang))
					}()
					imps[gi] = append(imps[gi], x)
				}
			}(gi)
		}
		stopGC := func() {}
		if round == 1 { // the second round runs under a busy collector
			stopGC = gcStorm()
		}
		close(startCh)
		wg.Wait()
		stopGC()
		for gi := range res {
			for _, r := range res[gi] {
				emitOv(r, "hammer", gi)
			}
		}
		for gi := range imps {
			for _, x := range imps[gi] {
				emit(Event{"op": "ByEntropy", "ent": ints(x.ent), "ent_len": len(x.ent), "ent_nil": false, "lang": langField(x.lang), "out": units(x.out),
					"err": errRec(x.err), "ent_same": true, "conc": true, "cls": "hammer-import", "g": gi, "panicked": false, "timeout": false})
			}
		}
		// the source the harness installed is still the installed one
		prev := bip39.VerifSwapSource(g)
		emit(Event{"op": "SourceCheck", "same": prev == io.Reader(g)})
	}
	swapSource(osRandReader(), "os")
	if serialisedRuns > 0 {
		os.Stderr.WriteString("overlap: the library serialised " + strconv.Itoa(serialisedRuns) + " scenario(s): B waited for A\n")
	}
}
