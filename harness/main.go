package main

import (
	"flag"
	"fmt"
	"os"
	"time"
)

func pickLangs(k int) func(string, int, *rng) []int {
	return func(_ string, _ int, r *rng) []int {
		if k >= 10 {
			return []int{0, 1, 2, 3, 4, 5, 6, 7, 8, 9}
		}
		return r.perm(10)[:k]
	}
}

func main() {
	if len(os.Args) < 2 {
		fatal("usage: harness <cmd> ...")
	}
	cmd := os.Args[1]
	fs := flag.NewFlagSet(cmd, flag.ExitOnError)
	prop := fs.String("prop", "", "property id")
	tier := fs.String("tier", "quick", "quick|thorough")
	seed := fs.Int64("seed", 1, "VERIF_SEED")
	outp := fs.String("out", "", "output NDJSON file")
	arg := fs.String("arg", "", "command-specific argument (file path)")
	nArg := fs.Int64("n", 12, "word count (osproc)")
	langArg := fs.Int64("lang", 2, "language (osproc)")
	fs.Parse(os.Args[2:])
	if *outp == "" {
		fatal("-out required")
	}
	openOut(*outp)
	defer closeOut()
	if *tier == "quick" {
		watchdog = 30 * time.Second
	}
	loadGolden()
	loadPools()
	emit(Event{"op": "Reset", "fresh_process": true, "seed": *seed, "tier": *tier, "prop": *prop})
	flushEach = true // (write-through: about 3 us per event, and nothing observed is lost when a process dies)
	switch cmd {
	case "gen":
		genFor(*prop, *tier, *seed, *arg)
	case "osproc":
		runOSProc(*nArg, *langArg, *seed)
	case "overlap":
		runOverlap(*tier, *seed)
	case "cold":
		runCold(*langArg, *seed, *nArg)
	case "concuni":
		runConcUni(*tier, *seed)
	case "batch":
		runBatch(*tier, *seed)
	case "concheck":
		runConCheck(*tier, *seed)
	case "conc":
		runConcFile(*arg, *seed)
	case "prog":
		runProgramFile(*arg, *seed)
	case "replayconc":
		replayConcFile(*arg)
	case "genparse":
		runGenParse(*arg)
	case "replay":
		replayFile(*arg)
	default:
		fatal("unknown command", cmd)
	}
	if !concMode {
		runEchoes(true)
		recheckSeeds()
	}
	closeOut()
	fmt.Fprintf(os.Stderr, "harness: %d events\n", nEvents)
}

var all10 = []int{0, 1, 2, 3, 4, 5, 6, 7, 8, 9}

func set(names ...string) map[string]bool {
	m := map[string]bool{}
	for _, n := range names {
		m[n] = true
	}
	return m
}

func genFor(prop, tier string, seed int64, phase string) {
	q := tier == "quick"
	switch prop {
	case "C01", "C02", "C03", "C05", "C08", "C15", "C04", "C10", "C11", "C09", "C14", "C16":
		disturbOn = phase != "extreme"
	}
	switch prop {
	case "C01", "C02", "C03", "C05", "C15":
		echoOn = true
	}
	switch prop {
	case "C01":
		runMixed(seed, map[string]int{"quick": 1500, "thorough": 30000}[tier], false)
		if q {
			runEncode(tier, seed, set("latin"), pickLangs(2), false)
			runEncode(tier, seed, set("last", "hash", "runs"), pickLangs(1), false)
			runEncode(tier, seed, set("random", "extremal"), pickLangs(10), false)
		} else {
			runEncode(tier, seed, set("latin", "last", "hash", "runs", "random", "extremal"), pickLangs(10), false)
		}
	case "C05":
		runMixed(seed, map[string]int{"quick": 1500, "thorough": 30000}[tier], false)
		if q {
			runEncode(tier, seed, set("flips"), pickLangs(3), false)
			runEncode(tier, seed, set("latin", "runs"), pickLangs(1), false)
			runEncode(tier, seed, set("extremal"), pickLangs(10), false)
		} else {
			runEncode(tier, seed, set("flips", "latin", "runs", "last", "random", "extremal"), pickLangs(10), false)
		}
	case "C02":
		runMixed(seed, map[string]int{"quick": 1500, "thorough": 30000}[tier], true)
		if q {
			runEncode(tier, seed, set("runs"), pickLangs(2), true)
			runEncode(tier, seed, set("latin", "hash"), pickLangs(1), true)
			runEncode(tier, seed, set("random", "extremal"), pickLangs(10), true)
			runSweeps(tier, seed, newRng(seed, "c02l").perm(10)[:2], 2)
		} else {
			runEncode(tier, seed, set("runs", "latin", "hash", "random", "last", "extremal"), pickLangs(10), true)
			runSweeps(tier, seed, all10, 4)
		}
		runGenerated(tier, seed)
	case "C03":
		runLongSweeps(tier, seed)
		runFingerprintCollisions(seed)
		runUniform(seed, all10, "uniform")
		runWhitespaceMix(seed, map[string]int{"quick": 400, "thorough": 6000}[tier], []int64{0, 1, 2, 3, 4, 5, 6, 7, 8, 9})
		if q {
			runSweeps(tier, seed, all10, 1)
			runMutations(tier, seed, newRng(seed, "c03l").perm(10)[:2], true)
			runMutations(tier, seed+1000, all10, false)
		} else {
			runSweeps(tier, seed, all10, 10)
			runMutations(tier, seed, all10, true)
			for k := int64(1); k <= 4; k++ {
				runMutations(tier, seed+1000*k, all10, false)
			}
		}
	case "C15":
		// "a nil error only for valid sentences": of all 2048 last words, after validations that leave leading-zero
		// entropies behind, exactly the predicted ones are accepted
		if q {
			runSweeps(tier, seed, newRng(seed, "c15l").perm(10)[:2], 4)
		} else {
			runSweeps(tier, seed, all10, 8)
		}
		runLongSweeps(tier, seed)
		runChecksumCover(tier, seed)
		runDefects(tier, seed, all10)
		runUniform(seed, all10, "uniform")
		runWhitespaceMix(seed, map[string]int{"quick": 300, "thorough": 4000}[tier], []int64{0, 1, 2, 3, 4, 5, 6, 7, 8, 9})
		if q {
			runMutations(tier, seed, all10, false)
		} else {
			for k := int64(0); k < 6; k++ {
				runDefects(tier, seed+77*(k+1), all10)
				runMutations(tier, seed+1000*k, all10, false)
			}
		}
	case "C08":
		// while the process is cold: validations under values that name no language (an id taken from a request),
		// before any list has been used - whatever they do, the lists seen afterwards are the canonical ones
		for l := int64(0); l < 10; l++ { // entry points added since the pinned commit, used before the old ones
			probeNewMethods(l)
		}
		cold := sentence(indicesOf(newRng(seed, "c08cold").bytes(16)), 2, " ")
		for _, l := range []int64{100, -1, 10, 1 << 31, 255} {
			recCheck(cold, l, Event{"cls": "coldunsupported"})
		}
		runListCover(tier, seed)
		runListSource()
	case "C09":
		if phase != "extreme" { // the five accepted sizes must succeed whatever the entropy selects: longest / shortest words
			runEncode(tier, seed, set("extremal", "runs"), pickLangs(10), false)
		}
		runGates(tier, seed, phase)
	case "C14":
		runRobust(tier, seed, phase)
		if phase != "extreme" {
			runStrings(-300, 300)
		}
	case "C16":
		runStrings(-70000, 70000)
	case "XNFKD":
		runNFKDProbes(seed, map[string]int{"quick": 3000, "thorough": 60000}[tier])
	case "C04":
		cutEvery = 36
		runSeeds(tier, seed)
	case "C10":
		cutEvery = 120
		runCheckGroups(tier, seed)
	case "C11":
		cutEvery = 80
		runSeedGroups(tier, seed)
	default:
		fatal("gen: unknown property", prop)
	}
}
