package main

import (
	"encoding/json"
	"go/ast"
	"go/parser"
	"go/token"
	"go/types"
	"os"
	"path/filepath"
	"strconv"
)

// genparse (C17): reads the ten files the update-wordlist tool wrote, parses
// and type-checks them, and logs one Gen event per target: the input the
// tool was served, the variable and the words found in its output.

type genArgs struct {
	InDir  string `json:"indir"`
	OutDir string `json:"outdir"`
	Golden bool   `json:"golden"`
	Label  string `json:"label"`
}

func parseListFile(path string) (name string, words [][]int, ok bool) {
	fs := token.NewFileSet()
	af, err := parser.ParseFile(fs, path, nil, 0)
	if err != nil {
		return "", [][]int{}, false
	}
	nvars := 0
	ok = true
	ast.Inspect(af, func(n ast.Node) bool {
		if vs, isv := n.(*ast.ValueSpec); isv && len(vs.Values) == 1 {
			if cl, isc := vs.Values[0].(*ast.CompositeLit); isc {
				nvars++
				name = vs.Names[0].Name
				for _, e := range cl.Elts {
					bl, isb := e.(*ast.BasicLit)
					if !isb {
						ok = false
						continue
					}
					s, err := strconv.Unquote(bl.Value)
					if err != nil {
						ok = false
					}
					words = append(words, units(s))
				}
			}
		}
		return true
	})
	if words == nil {
		words = [][]int{}
	}
	return name, words, ok && nvars == 1
}

func runGenParse(path string) {
	b, err := os.ReadFile(path)
	if err != nil {
		fatal(err)
	}
	var a genArgs
	if err := json.Unmarshal(b, &a); err != nil {
		fatal(err)
	}
	// does the generated package compile?
	fset := token.NewFileSet()
	var files []*ast.File
	parsedAll := true
	for _, f := range listFiles {
		af, err := parser.ParseFile(fset, filepath.Join(a.OutDir, "internal/wordlist", f+".go"), nil, 0)
		if err != nil {
			parsedAll = false
			continue
		}
		files = append(files, af)
	}
	compiles := parsedAll
	if parsedAll {
		conf := types.Config{Error: func(error) { compiles = false }}
		if _, err := conf.Check("wordlist", fset, files, nil); err != nil {
			compiles = false
		}
	}
	for l, f := range listFiles {
		in, err := os.ReadFile(filepath.Join(a.InDir, f+".txt"))
		if err != nil {
			fatal(err)
		}
		name, words, ok := parseListFile(filepath.Join(a.OutDir, "internal/wordlist", f+".go"))
		e := Event{"op": "Gen", "lang": l, "file": units(f), "var": units(name), "input": units(string(in)), "words": words,
			"compiles": compiles && ok, "golden": a.Golden, "label": a.Label}
		if a.Golden {
			_, committed, _ := parseListFile(filepath.Join(repoDir(), "internal/wordlist", f+".go"))
			e["committed"] = committed
		}
		emit(e)
	}
	// one unit per run of the tool (all ten targets): what the tool writes for one target may depend on what it read for
	// another in the same run, so a replay serves the ten recorded inputs together (seeded change C17l)
	emit(Event{"op": "Cut", "source": "os"})
}
