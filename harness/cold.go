package main

import (
	"strconv"
	"sync"
	"sync/atomic"
	"time"

	"github.com/islishude/bip39"
)

// runCold: the first validations of a fresh process, made by many goroutines arriving a fraction of a microsecond
// to a few microseconds apart (a server that starts taking requests).  Each caller checks a sentence that the
// specification says must be accepted; what each call returned is recorded after the join and validated like any
// sequential call.  Lazy construction of the lookup tables is exactly then under way.
func runCold(lang int64, seed int64, round int64) {
	concMode = true
	r := newRng(seed, "cold/"+strconv.FormatInt(lang, 10)+"/"+strconv.FormatInt(round, 10))
	const G = 24
	sents := make([]string, G)
	for i := range sents {
		sents[i] = sentence(indicesOf(r.bytes(sizes[r.intn(5)])), int(lang), " ")
	}
	emit(Event{"op": "Cut", "source": "os", "cold": true, "cold_lang": lang, "cold_seed": seed, "cold_round": round})
	step := time.Duration(100+r.intn(4000)) * time.Nanosecond
	type res struct {
		err   error
		valid bool
		o     outcome
	}
	out := make([]res, G)
	var start int32
	var wg sync.WaitGroup
	for i := 0; i < G; i++ {
		wg.Add(1)
		go func(i int) {
			defer wg.Done()
			for atomic.LoadInt32(&start) == 0 {
			}
			for t0 := time.Now(); time.Since(t0) < time.Duration(i)*step; {
			}
			out[i].o = guarded(func() {
				out[i].err = bip39.CheckMnemonic(sents[i], bip39.Language(lang))
				out[i].valid = bip39.IsMnemonicValid(sents[i], bip39.Language(lang))
			})
		}(i)
	}
	time.Sleep(2 * time.Millisecond) // let every caller reach the start line
	atomic.StoreInt32(&start, 1)
	wg.Wait()
	for i := 0; i < G; i++ {
		e := Event{"op": "Check", "in": units(sents[i]), "lang": langField(lang), "err": errRec(out[i].err), "valid": out[i].valid,
			"in_same": true, "gen": true, "conc": true, "cls": "cold", "g": i}
		emit(out[i].o.into(e))
	}
}
