package main

import (
	"strconv"
	"sync"
	"sync/atomic"
	"time"

	"github.com/islishude/bip39"
)

// runCold: the first calls of a fresh process, made by many goroutines arriving a fraction of a microsecond to a
// few microseconds apart (a server that starts taking requests).  Even callers check a sentence that the
// specification says must be accepted, odd callers encode an entropy of their own; what each call returned is
// recorded after the join and validated like any sequential call.  Lazy construction of lookup tables (and of
// anything else prepared on first use) is exactly then under way.
func runCold(lang int64, seed int64, round int64) {
	concMode = true
	r := newRng(seed, "cold/"+strconv.FormatInt(lang, 10)+"/"+strconv.FormatInt(round, 10))
	const G = 24
	type res struct {
		sent  string
		ent   []byte
		out   string
		err   error
		valid bool
		o     outcome
	}
	out := make([]res, G)
	for i := range out {
		out[i].sent = sentence(indicesOf(r.bytes(sizes[r.intn(5)])), int(lang), " ")
		out[i].ent = r.bytes(sizes[r.intn(5)])
	}
	emit(Event{"op": "Cut", "source": "os", "cold": true, "cold_lang": lang, "cold_seed": seed, "cold_round": round})
	step := time.Duration(100+r.intn(4000)) * time.Nanosecond
	var start int32
	var wg sync.WaitGroup
	for i := 0; i < G; i++ {
		wg.Add(1)
		go func(i int) {
			defer wg.Done()
			for atomic.LoadInt32(&start) == 0 {
			}
			for t0 := time.Now(); time.Since(t0) < time.Duration(i)*step; {
			}
			if i%2 == 1 {
				out[i].o = guarded(func() {
					out[i].out, out[i].err = bip39.NewMnemonicByEntropy(out[i].ent, bip39.Language(lang))
				})
				return
			}
			out[i].o = guarded(func() {
				out[i].err = bip39.CheckMnemonic(out[i].sent, bip39.Language(lang))
				out[i].valid = bip39.IsMnemonicValid(out[i].sent, bip39.Language(lang))
			})
		}(i)
	}
	time.Sleep(2 * time.Millisecond) // let every caller reach the start line
	atomic.StoreInt32(&start, 1)
	wg.Wait()
	for i := 0; i < G; i++ {
		if i%2 == 1 {
			ent := out[i].ent
			e := Event{"op": "ByEntropy", "ent": ints(ent), "ent_len": len(ent), "ent_nil": false, "lang": langField(lang), "out": units(out[i].out),
				"err": errRec(out[i].err), "ent_same": true, "conc": true, "cls": "cold", "g": i}
			emit(out[i].o.into(e))
			continue
		}
		e := Event{"op": "Check", "in": units(out[i].sent), "lang": langField(lang), "err": errRec(out[i].err), "valid": out[i].valid,
			"in_same": true, "gen": true, "conc": true, "cls": "cold", "g": i}
		emit(out[i].o.into(e))
	}
}
