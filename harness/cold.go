package main

import (
	"strconv"
	"sync"
	"sync/atomic"
	"time"

	"github.com/islishude/bip39"
)

// runCold: the first calls of a fresh process, made by many goroutines arriving a fraction of a microsecond to a
// few microseconds apart (a server that starts taking requests).  Even callers check a sentence that the
// specification says must be accepted, odd callers encode an entropy of their own; what each call returned is
// recorded after the join and validated like any sequential call.  Lazy construction of lookup tables (and of
// anything else prepared on first use) is exactly then under way.
func runCold(lang int64, seed int64, round int64) {
	concMode = true
	r := newRng(seed, "cold/"+strconv.FormatInt(lang, 10)+"/"+strconv.FormatInt(round, 10))
	const G = 24
	type res struct {
		sent  string
		ent   []byte
		out   string
		err   error
		valid bool
		o     outcome
		name  string // what Language(lang).String() returned to this caller, asked before anything else
		name2 string // ... and Language(i % 12 - 1).String()
		lang  int64
	}
	out := make([]res, G)
	// every third process: the callers use different languages (first uses of several languages overlap)
	mixed := round%3 == 2
	for i := range out {
		out[i].lang = lang
		if mixed {
			out[i].lang = (lang + int64(i/2)) % 10
		}
		out[i].sent = sentence(indicesOf(r.bytes(sizes[r.intn(5)])), int(out[i].lang), " ")
		out[i].ent = r.bytes(sizes[r.intn(5)])
		if i%6 == 5 { // some of the encoding callers pass a value that names no language (a request with a bad id)
			out[i].lang = []int64{100, -1, 10}[(i/6)%3]
		}
	}
	emit(Event{"op": "Cut", "source": "os", "cold": true, "cold_lang": lang, "cold_seed": seed, "cold_round": round})
	step := time.Duration(100+r.intn(4000)) * time.Nanosecond
	var start int32
	var wg sync.WaitGroup
	for i := 0; i < G; i++ {
		wg.Add(1)
		go func(i int) {
			defer wg.Done()
			for atomic.LoadInt32(&start) == 0 {
			}
			for t0 := time.Now(); time.Since(t0) < time.Duration(i)*step; {
			}
			lang := out[i].lang
			if i%2 == 1 {
				out[i].o = guarded(func() {
					out[i].name = bip39.Language(lang).String()
					out[i].name2 = bip39.Language(i%12 - 1).String()
					out[i].out, out[i].err = bip39.NewMnemonicByEntropy(out[i].ent, bip39.Language(lang))
				})
				return
			}
			out[i].o = guarded(func() {
				out[i].name = bip39.Language(lang).String()
				out[i].name2 = bip39.Language(i%12 - 1).String()
				out[i].err = bip39.CheckMnemonic(out[i].sent, bip39.Language(lang))
				out[i].valid = bip39.IsMnemonicValid(out[i].sent, bip39.Language(lang))
			})
		}(i)
	}
	// every third process: meanwhile a crowd of other callers keeps encoding under a value that names no language
	// (cheap calls, no first use of their own) - the first uses above happen in the middle of heavy read traffic
	var stormStop int32
	var stormWG sync.WaitGroup
	stormSeen := make([]map[string]int, 0)
	var stormEnt []byte
	if round%3 == 1 {
		stormEnt = r.bytes(16)
		for k := 0; k < 48; k++ {
			m := map[string]int{}
			stormSeen = append(stormSeen, m)
			stormWG.Add(1)
			go func(m map[string]int) {
				defer stormWG.Done()
				defer func() { recover() }()
				for atomic.LoadInt32(&stormStop) == 0 {
					s, err := bip39.NewMnemonicByEntropy(stormEnt, bip39.Language(100))
					if err != nil {
						s += "/" + err.Error()
					}
					m[s]++
				}
			}(m)
		}
	}
	time.Sleep(2 * time.Millisecond) // let every caller reach the start line
	atomic.StoreInt32(&start, 1)
	wg.Wait()
	if round%3 == 1 {
		// first uses of the remaining languages, one after another, still inside the traffic
		for l := int64(0); l < 10; l++ {
			recCheck(sentence(indicesOf(r.bytes(16)), int(l), " "), l, Event{"gen": true, "conc": true, "cls": "cold-storm", "g": int(l)})
		}
		atomic.StoreInt32(&stormStop, 1)
		done := make(chan struct{})
		go func() { stormWG.Wait(); close(done) }()
		select {
		case <-done:
			tot := map[string]int{}
			for _, m := range stormSeen {
				for k, v := range m {
					tot[k] += v
				}
			}
			for k, v := range tot { // one event per distinct observation
				emit(Event{"op": "ByEntropy", "ent": ints(stormEnt), "ent_len": 16, "ent_nil": false, "lang": langField(100), "out": units(k),
					"err": errRec(nil), "ent_same": true, "conc": true, "cls": "cold-storm", "count": v, "panicked": false, "timeout": false})
			}
		case <-time.After(watchdog):
			emit(Event{"op": "ByEntropy", "ent": ints(stormEnt), "ent_len": 16, "ent_nil": false, "lang": langField(100), "out": []int{},
				"err": errRec(nil), "ent_same": true, "conc": true, "cls": "cold-storm", "panicked": false, "timeout": true,
				"panic": units("encoding callers did not come back")})
		}
	}
	for i := 0; i < G; i++ {
		lang := out[i].lang
		if !out[i].o.panicked && !out[i].o.timeout {
			emit(Event{"op": "String", "n": bigRec(lang), "out": units(out[i].name), "conc": true, "cls": "cold", "g": i, "panicked": false, "timeout": false})
			emit(Event{"op": "String", "n": bigRec(int64(i%12 - 1)), "out": units(out[i].name2), "conc": true, "cls": "cold", "g": i, "panicked": false, "timeout": false})
		}
		if i%2 == 1 {
			ent := out[i].ent
			e := Event{"op": "ByEntropy", "ent": ints(ent), "ent_len": len(ent), "ent_nil": false, "lang": langField(lang), "out": units(out[i].out),
				"err": errRec(out[i].err), "ent_same": true, "conc": true, "cls": "cold", "g": i}
			emit(out[i].o.into(e))
			continue
		}
		e := Event{"op": "Check", "in": units(out[i].sent), "lang": langField(lang), "err": errRec(out[i].err), "valid": out[i].valid,
			"in_same": true, "gen": true, "conc": true, "cls": "cold", "g": i}
		emit(out[i].o.into(e))
	}
	// afterwards, alone: whatever went on during the concurrent start, the process must have settled into the same
	// state a sequential start reaches
	for i := 0; i < G; i += 2 {
		recCheck(out[i].sent, out[i].lang, Event{"gen": true, "conc": true, "cls": "cold-after", "g": i})
	}
}
