package main

import (
	"bytes"
	"strconv"
	"sync"

	"github.com/islishude/bip39"
)

// runBatch: batch generation from one buffer of random bytes (C01, C02, C05, C12, C13).  The caller cuts its buffer
// into chunks with two-index slices - so every chunk has spare capacity reaching into its neighbours - and turns
// each chunk into a mnemonic, first one after another, then one goroutine per chunk.  The caller's code is
// race-free (the chunks are disjoint).  Logged per chunk: the call with the bytes the chunk held when the buffer
// was filled, the validation of what came back, and whether the whole buffer still holds what it was filled with.
func runBatch(tier string, seed int64) {
	concMode = true
	r := newRng(seed, "batch")
	const G = 8
	rounds := map[string]int{"quick": 60, "thorough": 1200}[tier]
	emit(Event{"op": "Cut", "source": curSource, "batch_seed": seed, "batch_tier": tier})
	for round := 0; round < rounds; round++ {
		if round%20 == 19 {
			emit(Event{"op": "Cut", "source": curSource, "batch_seed": seed, "batch_tier": tier})
		}
		conc := round%3 != 0
		size := sizes[r.intn(5)]
		lang := int64(r.intn(10))
		stride := []int{32, size, 40}[r.intn(3)] // chunks back to back, or with a gap
		buf := r.bytes(G*stride + 64)
		orig := append([]byte(nil), buf...)
		type res struct {
			out   string
			err   error
			cerr  error
			valid bool
			o     outcome
		}
		out := make([]res, G)
		reps := 1
		if conc {
			reps = 30 // every worker encodes its chunk again and again while its neighbours do the same
		}
		one := func(i int) {
			ent := buf[i*stride : i*stride+size]
			out[i].o = guarded(func() {
				for k := 0; k < reps; k++ {
					o, e := bip39.NewMnemonicByEntropy(ent, bip39.Language(lang))
					var ce error
					v := false
					if e == nil {
						ce = bip39.CheckMnemonic(o, bip39.Language(lang))
						v = bip39.IsMnemonicValid(o, bip39.Language(lang))
					}
					// all repetitions should agree; what is logged is the first one - or the first that does not validate
					if k == 0 || (out[i].cerr == nil && out[i].err == nil && (e != nil || ce != nil || !v)) {
						out[i].out, out[i].err, out[i].cerr, out[i].valid = o, e, ce, v
					}
				}
			})
		}
		if conc {
			stopGC := func() {}
			if round%2 == 1 { // every other concurrent round runs under a busy collector
				stopGC = gcStorm()
			}
			start := make(chan struct{})
			var wg sync.WaitGroup
			for i := 0; i < G; i++ {
				wg.Add(1)
				go func(i int) { defer wg.Done(); <-start; one(i) }(i)
			}
			close(start)
			wg.Wait()
			stopGC()
		} else {
			for i := 0; i < G; i++ {
				one(i)
			}
		}
		same := bytes.Equal(buf, orig)
		cls := "batch-" + map[bool]string{true: "conc", false: "seq"}[conc] + "/" + strconv.Itoa(stride)
		for i := 0; i < G; i++ {
			ent := orig[i*stride : i*stride+size]
			emit(out[i].o.into(Event{"op": "ByEntropy", "ent": ints(ent), "ent_len": size, "ent_nil": false, "lang": langField(lang), "out": units(out[i].out),
				"err": errRec(out[i].err), "ent_same": same, "conc": true, "cls": cls, "g": i}))
			if out[i].err == nil && !out[i].o.panicked && !out[i].o.timeout {
				emit(Event{"op": "Check", "in": units(out[i].out), "lang": langField(lang), "err": errRec(out[i].cerr), "valid": out[i].valid, "in_same": true,
					"gen": true, "conc": true, "cls": cls, "g": i, "panicked": false, "timeout": false})
			}
		}
	}
	// encode storm: many callers encode their own few entropies over and over while the collector is kept busy
	// (a loaded server).  One event per distinct observation, with its count: an entropy always encodes to the same
	// sentence, so every caller normally contributes one event per entropy.
	emit(Event{"op": "Cut", "source": curSource, "batch_seed": seed, "batch_tier": tier})
	const SG = 32
	reps := map[string]int{"quick": 5000, "thorough": 40000}[tier]
	type obs struct {
		out string
		err error
		n   int
	}
	ents := make([][][]byte, SG)
	langs := make([]int64, SG)
	seen := make([]map[string]*obs, SG)
	for gi := range ents {
		langs[gi] = int64(r.intn(10))
		seen[gi] = map[string]*obs{}
		for k := 0; k < 4; k++ {
			ents[gi] = append(ents[gi], r.bytes(sizes[r.intn(5)]))
		}
	}
	stop, stop2 := gcStorm(), gcStorm()
	defer stop2()
	var wg sync.WaitGroup
	for gi := 0; gi < SG; gi++ {
		wg.Add(1)
		go func(gi int) {
			defer wg.Done()
			defer func() { recover() }()
			for i := 0; i < reps; i++ {
				k := i % 4
				out, err := bip39.NewMnemonicByEntropy(ents[gi][k], bip39.Language(langs[gi]))
				key := strconv.Itoa(k) + "/" + out
				if err != nil {
					key += "/" + err.Error()
				}
				if x := seen[gi][key]; x != nil {
					x.n++
				} else {
					seen[gi][key] = &obs{out, err, 1}
				}
			}
		}(gi)
	}
	wg.Wait()
	stop()
	for gi := 0; gi < SG; gi++ {
		for key, x := range seen[gi] {
			k := int(key[0] - '0')
			ent := ents[gi][k]
			emit(Event{"op": "ByEntropy", "ent": ints(ent), "ent_len": len(ent), "ent_nil": false, "lang": langField(langs[gi]), "out": units(x.out),
				"err": errRec(x.err), "ent_same": true, "conc": true, "cls": "encode-storm", "g": gi, "count": x.n, "panicked": false, "timeout": false})
		}
	}
}
