package main

import (
	"encoding/json"
	"os"
	"sync"
)

// Concurrent programs (C12, Drive_Conc.tla).  The harness's own shared state
// is only the event writer, guarded by emitMu; goroutines are released from
// one barrier.  After the join every distinct call is repeated sequentially
// ("run alone") so that Trace.tla can compare concurrent and sequential
// results for equal arguments; the process runs in a -race build and the
// driver appends the race detector's report as a RaceReport event.

type concProgram struct {
	Goroutines [][]pstep `json:"goroutines"`
	Replicas   int       `json:"replicas"`
}

var emitMu sync.Mutex
var concMode bool

func runConcFile(path string, seed int64) {
	b, err := os.ReadFile(path)
	if err != nil {
		fatal(err)
	}
	var p concProgram
	if err := json.Unmarshal(b, &p); err != nil {
		fatal(err)
	}
	concMode = true
	if p.Replicas < 1 {
		p.Replicas = 1
	}
	start := make(chan struct{})
	var wg sync.WaitGroup
	gid := 0
	for r := 0; r < p.Replicas; r++ {
		for _, steps := range p.Goroutines {
			gid++
			wg.Add(1)
			go func(g int, steps []pstep) {
				defer wg.Done()
				<-start
				for _, st := range steps {
					runConcStep(st, seed, g)
				}
			}(gid, steps)
		}
	}
	emit(Event{"op": "ConcStart", "goroutines": gid})
	close(start)
	wg.Wait()
	emit(Event{"op": "ConcJoin"})
	// every distinct call again, alone
	seen := map[string]bool{}
	for _, steps := range p.Goroutines {
		for _, st := range steps {
			k, _ := json.Marshal(st)
			if !seen[string(k)] {
				seen[string(k)] = true
				runConcStep(st, seed, 0)
			}
		}
	}
	mapLens()
}

func runConcStep(st pstep, seed int64, g int) {
	if st.Op == "new" { // default (OS) source: concurrent calls do not share a script
		recNewMnemonic(st.N, st.Lang, Event{"g": g, "conc": true})
		return
	}
	runAbstractStepG(st, seed, g)
}
