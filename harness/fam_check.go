package main

import (
	"github.com/islishude/bip39"
)

// recSweep runs the real validator on all 2048 candidate last words for a prefix of list indices.
func recSweep(prefix []int, lang int) {
	sep := " "
	words := goldenWords[lang]
	base := ""
	for _, ix := range prefix {
		base += words[ix] + sep
	}
	acc := []int{}
	o := guarded(func() {
		for t := 0; t < 2048; t++ {
			if bip39.CheckMnemonic(base+words[t], bip39.Language(lang)) == nil {
				acc = append(acc, t)
			}
		}
	})
	emit(o.into(Event{"op": "Sweep", "prefix": prefix, "lang": lang, "accepted": acc, "accepted_n": len(acc)}))
}

func replayExtra(op string, e Event) { fatal("replay: cannot re-execute", op) }
