package main

import (
	"crypto/sha256"
	"hash/adler32"
	"hash/crc32"
	"hash/fnv"
	"strconv"
	"strings"

	"github.com/islishude/bip39"
)

// Sentences are built here from the golden lists and Go's sha256 - only to
// construct *inputs* of interesting classes.  Whether an input is valid,
// canonical, or what defects it has is decided by TLC from the input alone.

func indicesOf(ent []byte) []int {
	n := len(ent)
	cs := n / 4
	h := sha256.Sum256(ent)
	bits := make([]byte, 0, 8*n+8)
	for _, b := range append(append([]byte(nil), ent...), h[0]) {
		for k := 7; k >= 0; k-- {
			bits = append(bits, b>>uint(k)&1)
		}
	}
	w := 3 * cs
	idx := make([]int, w)
	for i := 0; i < w; i++ {
		v := 0
		for k := 0; k < 11; k++ {
			v = v<<1 | int(bits[i*11+k])
		}
		idx[i] = v
	}
	return idx
}

func sentence(idx []int, lang int, sep string) string {
	ws := make([]string, len(idx))
	for i, x := range idx {
		ws[i] = goldenWords[lang][x]
	}
	return strings.Join(ws, sep)
}

// recSweep runs the real validator on all 2048 candidate last words for a prefix of list indices.
func recSweep(prefix []int, lang int) {
	base := ""
	if len(prefix) > 0 {
		base = sentence(prefix, lang, " ") + " "
	}
	words := goldenWords[lang]
	acc := []int{}
	o := guarded(func() {
		for t := 0; t < 2048; t++ {
			if bip39.CheckMnemonic(base+words[t], bip39.Language(lang)) == nil {
				acc = append(acc, t)
			}
		}
	})
	emit(o.into(Event{"op": "Sweep", "prefix": prefix, "lang": lang, "accepted": acc, "accepted_n": len(acc)}))
}

// sweepPrefixes: prefixes of valid sentences, with 0..3 leading zero bytes and random ones
func runSweeps(tier string, seed int64, langs []int, perPair int) {
	for _, size := range sizes {
		for _, lang := range langs {
			r := newRng(seed, "sweep/"+string(rune('a'+size))+string(rune('a'+lang)))
			for k := 0; k < perPair; k++ {
				maybeCut()
				ent := r.bytes(size)
				switch k % 4 {
				case 0: // first byte zero
					ent[0] = 0
				case 1: // several leading zero bytes
					for i := 0; i <= r.intn(4); i++ {
						ent[i] = 0
					}
				case 2: // all ones prefix
					for i := 0; i < size/2; i++ {
						ent[i] = 0xFF
					}
				}
				idx := indicesOf(ent)
				recSweep(idx[:len(idx)-1], lang)
			}
		}
	}
}

// runFingerprintCollisions: tokens that are no list words but have the same 32-bit fingerprint (FNV-1a, FNV-1,
// CRC-32, Adler-32 - the ones at hand in the standard library) as the list word in whose place they stand in an
// otherwise valid sentence: a word is its spelling, not a hash of it
func runFingerprintCollisions(seed int64) {
	if strconv.IntSize == 32 || buildVariant != "" {
		return // (searching for the colliding tokens takes a few seconds: done in the main pass only)
	}
	r := newRng(seed, "fingerprint")
	hashes := []func(string) uint32{
		func(s string) uint32 { h := fnv.New32a(); h.Write([]byte(s)); return h.Sum32() },
		func(s string) uint32 { h := fnv.New32(); h.Write([]byte(s)); return h.Sum32() },
		func(s string) uint32 { return crc32.ChecksumIEEE([]byte(s)) },
		func(s string) uint32 { return adler32.Checksum([]byte(s)) },
	}
	for _, lang := range []int{2, int(r.intn(10))} {
		for hi, hf := range hashes {
			maybeCut()
			byHash := map[uint32]int{}
			for ix, w := range goldenWords[lang] {
				byHash[hf(w)] = ix
			}
			buf := []byte("aaaaaaaa")
			found, at := "", -1
			for t := 0; t < 30000000 && found == ""; t++ { // 2^32 / 2048 = about two million tries expected
				for i := 0; i < 8; i++ {
					buf[i]++
					if buf[i] <= 'z' {
						break
					}
					buf[i] = 'a'
				}
				if ix, ok := byHash[hf(string(buf))]; ok && string(buf) != goldenWords[lang][ix] {
					found, at = string(buf), ix
				}
			}
			if found == "" {
				continue
			}
			// a valid sentence whose first word is the list word the token collides with
			ent := r.bytes(16)
			ent[0], ent[1] = byte(at>>3), byte(at&7)<<5|ent[1]&0x1f
			ws := strings.Split(sentence(indicesOf(ent), lang, " "), " ")
			ws[0] = found
			recCheck(strings.Join(ws, " "), int64(lang), Event{"cls": "fingerprint", "k": hi})
		}
	}
}

// runLongSweeps: all 2048 last words after prefixes far longer than any accepted sentence (256k + 11, 14, ... words:
// a count that wraps in a narrow integer looks acceptable): none may be accepted
// runChecksumCover: sentences that together contain every word of every list, each with the checksum as its only
// defect (the last word replaced by another word of the same list that is wrong for it): the kind of error does not
// depend on which list words the sentence is made of
func runChecksumCover(tier string, seed int64) {
	r := newRng(seed, "checksumcover")
	for _, lang := range all10 {
		for k, idx := range coverSentences(lang, r) {
			if tier == "quick" && (k+lang)%2 != int(seed%2) {
				continue
			}
			maybeCut()
			m := append([]int(nil), idx...)
			m[len(m)-1] ^= 1 + r.intn(7) // (the low bits carry checksum: flipping them leaves a list word with a wrong checksum)
			recCheck(sentence(m, lang, " "), int64(lang), Event{"cls": "checksumcover"})
			recCheck(sentence(idx, lang, " "), int64(lang), Event{"cls": "validcover", "gen": true})
		}
	}
}

func runLongSweeps(tier string, seed int64) {
	r := newRng(seed, "longsweep")
	counts := []int{268, 271, 274, 277, 280, 524}
	if tier == "thorough" {
		counts = append(counts, 256+24, 512+15, 768+18, 1024+21, 65536+12, 65536+24)
	}
	for _, n := range counts {
		maybeCut()
		lang := r.intn(10)
		prefix := make([]int, n-1)
		for i := range prefix {
			prefix[i] = r.intn(2048)
		}
		recSweep(prefix, lang)
	}
}

// uniformSentences: one word repeated (index 0, 1, the last ones, powers of two, random) at every count around
// the accepted ones - the big integer of the validator is then zero, all ones, or a single repeated pattern
func runUniform(seed int64, langs []int, cls string) {
	r := newRng(seed, "uniform")
	for _, lang := range langs {
		for _, ix := range []int{0, 1, 2, 7, 8, 1023, 1024, 2046, 2047, r.intn(2048), r.intn(2048)} {
			for _, n := range []int{11, 12, 13, 15, 18, 21, 24, 25} {
				maybeCut()
				idx := make([]int, n)
				for i := range idx {
					idx[i] = ix
				}
				recCheck(sentence(idx, lang, " "), int64(lang), Event{"cls": cls})
				if n >= 12 && n <= 24 && n%3 == 0 { // the same with every candidate kept but the last word completing a valid checksum
					ent := bitsToBytes(func() []byte {
						b := make([]byte, n/3*32)
						for g := 0; g*11 < len(b); g++ {
							setGroup(b, g, ix)
						}
						return b
					}())
					recCheck(sentence(indicesOf(ent), lang, " "), int64(lang), Event{"cls": cls + "valid"})
				}
			}
		}
	}
}

// stopTails: ill-formed UTF-8 (lone byte, truncated sequences, surrogate half, overlong), NUL and the invisible / line-ending code
// points at which a hand-written or library tokenizer may stop reading
var stopTails = []string{"\xff", "\xc3", "\xed\xa0\x80", "\x80", "\xf0\x9f\x98", "\xe3\x80", "\xc0\xaf", "\x00", "\ufeff", "\u200b", "\r", "\v", "\u0085", "\u2028", "\ufffd"}

var otherSeps = []string{"\t", "\n", "  ", "\u00a0", "\u3000", "\u2003", "\u2009", "\u202f", "\u0085", "\u2028", ",", "-", ""}

// runMutations: classes of damaged sentences derived from valid ones (C03, C15)
func runMutations(tier string, seed int64, langs []int, fullSubst bool) {
	for _, size := range sizes {
		for _, lang := range langs {
			r := newRng(seed, "mut/"+string(rune('a'+size))+string(rune('a'+lang)))
			ent := r.bytes(size)
			if r.intn(3) == 0 {
				ent[0] = 0
			}
			idx := indicesOf(ent)
			w := len(idx)
			L := int64(lang)
			chk := func(s string, cls string) {
				maybeCut()
				recCheck(s, L, Event{"cls": cls})
			}
			chk(sentence(idx, lang, " "), "valid")
			// substitutions at one position (all 2047) or a sample
			pos := r.intn(w)
			nsub := 2048
			if !fullSubst {
				nsub = 64
			}
			for t := 0; t < nsub; t++ {
				x := t
				if !fullSubst {
					x = r.intn(2048)
				}
				if x == idx[pos] {
					continue
				}
				m := append([]int(nil), idx...)
				m[pos] = x
				chk(sentence(m, lang, " "), "subst")
			}
			// adjacent transpositions at every position, some random ones
			for p := 0; p+1 < w; p++ {
				m := append([]int(nil), idx...)
				m[p], m[p+1] = m[p+1], m[p]
				chk(sentence(m, lang, " "), "transpose")
			}
			for t := 0; t < 8; t++ {
				m := append([]int(nil), idx...)
				a, b := r.intn(w), r.intn(w)
				m[a], m[b] = m[b], m[a]
				chk(sentence(m, lang, " "), "transpose")
			}
			// word-count changes: drop / add / duplicate (some land on another accepted count)
			for d := 1; d <= 3; d++ {
				chk(sentence(idx[:w-d], lang, " "), "drop")
				chk(sentence(idx[d:], lang, " "), "drop")
				m := append(append([]int(nil), idx...), idx[:d]...)
				chk(sentence(m, lang, " "), "add")
			}
			m := append([]int{idx[0]}, idx...)
			chk(sentence(m, lang, " "), "dup")
			// words of other lists
			for ol := 0; ol < 10; ol++ {
				if ol == lang {
					continue
				}
				ws := strings.Split(sentence(idx, lang, " "), " ")
				ws[r.intn(w)] = goldenWords[ol][r.intn(2048)]
				chk(strings.Join(ws, " "), "otherlist")
				chk(sentence(idx, ol, " "), "wholeother") // a sentence of language ol checked under lang
			}
			// the same string, accepted under its own language a moment ago, asked about under every other language
			s0 := sentence(idx, lang, " ")
			for ol := 0; ol < 10; ol++ {
				if ol != lang {
					recCheck(s0, L, Event{"cls": "valid"})
					recCheck(s0, int64(ol), Event{"cls": "samestring"})
				}
			}
			// case / affix / punctuation damage
			ws := strings.Split(sentence(idx, lang, " "), " ")
			for t := 0; t < 6; t++ {
				c := append([]string(nil), ws...)
				p := r.intn(w)
				switch t {
				case 0:
					c[p] = strings.ToUpper(c[p])
				case 1:
					c[p] = strings.Title(c[p])
				case 2:
					c[p] = c[p] + "s"
				case 3:
					c[p] = "x" + c[p]
				case 4:
					c[p] = c[p] + "."
				case 5:
					rs := []rune(c[p])
					c[p] = string(rs[:len(rs)-1])
				}
				chk(strings.Join(c, " "), "damage")
			}
			// other separators, leading/trailing separators
			for _, sp := range otherSeps {
				chk(sentence(idx, lang, sp), "sep")
			}
			chk(" "+sentence(idx, lang, " "), "sep")
			chk(sentence(idx, lang, " ")+" ", "sep")
			chk(sentence(idx, lang, " ")+"\n", "sep")
			// byte fuzz, including invalid UTF-8
			bs := []byte(sentence(idx, lang, " "))
			for t := 0; t < 12; t++ {
				c := append([]byte(nil), bs...)
				switch t % 4 {
				case 0:
					c[r.intn(len(c))] ^= byte(1 << uint(r.intn(8)))
				case 1:
					c[r.intn(len(c))] = byte(0x80 + r.intn(0x80))
				case 2:
					p := r.intn(len(c))
					c = append(c[:p], c[p+1:]...)
				case 3:
					p := r.intn(len(c))
					c = append(c[:p], append([]byte{0xC3}, c[p:]...)...)
				}
				chk(string(c), "fuzz")
			}
			// a valid sentence followed, without a separator, by something a decoder, scanner or validator could stop at
			// - and then by anything at all; the same thing in front of it (seeded change C03l: partial output of a failed transform)
			for t := 0; t < 5; t++ {
				tail := stopTails[(size/4+lang*5+t)%len(stopTails)]
				chk(s0+tail, "tail")
				chk(s0+tail+" "+goldenWords[lang][r.intn(2048)]+" "+goldenWords[lang][r.intn(2048)], "tail")
				if t < 2 {
					chk(tail+s0, "tail")
					chk(sentence(idx[:w/2], lang, " ")+tail+" "+sentence(idx[w/2:], lang, " "), "tail")
				}
			}
			chk("", "empty")
			chk(string(r.bytes(40)), "fuzz")
		}
	}
}

// runDefects: sentences with exactly one class of defect (C15)
func runDefects(tier string, seed int64, langs []int) {
	for _, lang := range langs {
		r := newRng(seed, "defect/"+string(rune('a'+lang)))
		L := int64(lang)
		// wrong counts 0..30, made of list words (count is the only possible defect when not in {12..24 step 3};
		// for accepted counts the words are taken from a valid sentence, so there is no defect at all)
		counts := []int{}
		for n := 0; n <= 40; n++ {
			counts = append(counts, n)
		}
		counts = append(counts, 47, 48, 49, 63, 64, 96, 100, 127, 128, 255, 256, 257, 1000)
		for _, n := range counts {
			maybeCut()
			var s string
			if n%3 == 0 && n >= 12 && n <= 24 {
				s = sentence(indicesOf(r.bytes(n/3*4)), lang, " ")
			} else {
				idx := make([]int, n)
				for i := range idx {
					idx[i] = r.intn(2048)
				}
				s = sentence(idx, lang, " ")
			}
			recCheck(s, L, Event{"cls": "count"})
		}
		// every token unknown, at every count (the count decides: ErrWordLen only when the count is wrong)
		for n := 10; n <= 26; n++ {
			recCheck(strings.TrimSpace(strings.Repeat("qqqq ", n)), L, Event{"cls": "allunknown"})
			ts := make([]string, n)
			for i := range ts {
				ts[i] = "zz" + string(rune('a'+i))
			}
			recCheck(strings.Join(ts, " "), L, Event{"cls": "allunknown"})
		}
		for _, size := range sizes {
			idx := indicesOf(r.bytes(size))
			w := len(idx)
			ws := strings.Split(sentence(idx, lang, " "), " ")
			// one unknown token at every position
			for p := 0; p < w; p++ {
				maybeCut()
				c := append([]string(nil), ws...)
				c[p] = []string{"zzzzzz", "notaword", c[p] + "q", "0", "éé"}[r.intn(5)]
				recCheck(strings.Join(c, " "), L, Event{"cls": "unknown1"})
			}
			// one word short of the count, with a separator where the missing word would be (an empty token at the end,
			// at the start, in the middle): the count of separators says n, the words say n-1
			for _, sp := range []string{" ", "\u3000"} {
				short := ws[:w-1]
				recCheck(strings.Join(short, " ")+sp, L, Event{"cls": "emptytoken"})
				recCheck(sp+strings.Join(short, " "), L, Event{"cls": "emptytoken"})
				k := 1 + r.intn(w-2)
				recCheck(strings.Join(short[:k], " ")+" "+sp+strings.Join(short[k:], " "), L, Event{"cls": "emptytoken"})
			}
			// ... chosen so that word 0 of the list in the empty place would make the sentence valid
			for try := 0; try < 4000; try++ {
				e0 := r.bytes(size)
				cs := size / 4
				e0[size-1] &^= byte(1<<uint(11-cs)) - 1 // the entropy bits of the last word are zero
				ix := indicesOf(e0)
				if ix[len(ix)-1] != 0 {
					continue
				}
				pre := sentence(ix[:len(ix)-1], lang, " ")
				recCheck(pre+" ", L, Event{"cls": "emptytoken0"})
				recCheck(pre+"\u3000", L, Event{"cls": "emptytoken0"})
				recCheck(" "+pre, L, Event{"cls": "emptytoken0"})
				break
			}
			// a list word with an invisible character inside or after it (joiners, soft hyphen, variation selector, BOM):
			// not a list word
			for _, inv := range []string{"\u034f", "\u200d", "\u200c", "\u00ad", "\u2060", "\ufeff", "\ufe0f", "\u180e"} {
				c := append([]string(nil), ws...)
				p := r.intn(w)
				rs := []rune(c[p])
				k := 1 + r.intn(len(rs))
				c[p] = string(rs[:k]) + inv + string(rs[k:])
				recCheck(strings.Join(c, " "), L, Event{"cls": "invisible"})
			}
			// one unknown token of growing size (the kind of error must not depend on how long the stranger is)
			longs := []int{64, 300, 900, 2000, 9000}
			if tier == "thorough" && L == int64(seed%10) {
				longs = append(longs, 70000)
			} else if tier != "thorough" {
				longs = []int{64, longs[1+(int(L)+size)%4]}
			}
			for _, n := range longs {
				c := append([]string(nil), ws...)
				c[r.intn(w)] = strings.Repeat("qz", n/2)
				recCheck(strings.Join(c, " "), L, Event{"cls": "unknownlong"})
			}
			// several unknown tokens
			for t := 0; t < 4; t++ {
				c := append([]string(nil), ws...)
				for j := 0; j < 2+t; j++ {
					c[r.intn(w)] = "qq" + string(rune('a'+j))
				}
				recCheck(strings.Join(c, " "), L, Event{"cls": "unknownN"})
			}
			// wrong last word (checksum is the only possible defect)
			for t := 0; t < 24; t++ {
				m := append([]int(nil), idx...)
				m[w-1] = r.intn(2048)
				recCheck(sentence(m, lang, " "), L, Event{"cls": "lastword"})
			}
			// wrong word somewhere else
			for t := 0; t < 12; t++ {
				m := append([]int(nil), idx...)
				m[r.intn(w)] = r.intn(2048)
				recCheck(sentence(m, lang, " "), L, Event{"cls": "anyword"})
			}
		}
	}
}

var listSourceReplayed bool

// replayExtra re-executes the events that are not plain calls with logged arguments.
func replayExtra(op string, e Event) {
	rep := func(unit string, n int) string {
		if n <= 0 {
			return ""
		}
		return strings.Repeat(unit, n/len(unit))
	}
	desc, _ := e["desc"].(string)
	switch op {
	case "CheckHuge":
		unit := map[string]string{"10^6 spaces": " ", "ascii": "a", "non-NFKD": "\u00e9", "U+3000": "\u3000", "invalid bytes": "\xff", "many words": "abandon "}[desc]
		if unit != "" {
			recCheckHuge(rep(unit, int(num(e["in_len"]))), desc, num(e["lang"]))
		}
	case "ToSeedHuge":
		switch desc {
		case "ascii mnemonic":
			recToSeedHuge(rep("a", int(num(e["m_len"]))), "", desc)
		case "non-NFKD passphrase":
			recToSeedHuge("", rep("\u00e9", int(num(e["p_len"]))), desc)
		case "invalid bytes + marks":
			recToSeedHuge(rep("\xff", int(num(e["m_len"]))), rep("\u0301", int(num(e["p_len"]))), desc)
		}
	case "ListSource", "ListSourceUnobservable":
		if !listSourceReplayed {
			listSourceReplayed = true
			runListSource()
		}
	}
}
