// Package main: conformance harness for isLishude/bip39.
//
// The harness drives the real package and records what happened as NDJSON
// events (DESIGN.md appendix A).  It logs observations only: it never
// computes an expected value or a verdict - those come from TLC evaluating
// the TLA+ specification on the recorded events.
package main

import (
	"bufio"
	"encoding/json"
	"errors"
	"fmt"
	"math/big"
	"os"
	"path/filepath"
	"runtime"
	"strconv"
	"strings"
	"sync"
	"time"
	"unicode/utf8"

	"github.com/islishude/bip39"
)

type Event map[string]interface{}

var (
	outW    *bufio.Writer
	nEvents int
)

func openOut(path string) {
	f, err := os.Create(path)
	if err != nil {
		fatal(err)
	}
	outW = bufio.NewWriterSize(f, 1<<20)
}

func closeOut() {
	if outW != nil {
		outW.Flush()
	}
}

var processStart = time.Now()

// ageAtLeast waits until the process has been alive for d (deadlines computed once at start-up, idle timers and
// "recently used" state only show in a process that is not brand new)
func ageAtLeast(d time.Duration) {
	if rest := d - time.Since(processStart); rest > 0 {
		time.Sleep(rest)
	}
}

// settle lets the collector and the finalizer goroutine run: two collections and a short pause.  Called before
// results handed out earlier are inspected again, and by sources between two pieces of a delivery - a library that
// ties the life of a buffer to an object the caller no longer sees shows up then.
func settle() {
	for round := 0; round < 2; round++ {
		// a sentinel whose own finalizer reports that the finalizer goroutine has worked through this cycle's queue
		done := make(chan struct{})
		s := new([16]byte)
		runtime.SetFinalizer(s, func(*[16]byte) { close(done) })
		s = nil
		runtime.GC()
		select {
		case <-done:
		case <-time.After(200 * time.Millisecond):
		}
		time.Sleep(200 * time.Microsecond)
	}
}

// gcStorm keeps the collector busy until stop is called (memory pressure from the rest of the process).
func gcStorm() (stop func()) {
	done := make(chan struct{})
	var wg sync.WaitGroup
	wg.Add(1)
	go func() {
		defer wg.Done()
		junk := make([][]byte, 64)
		for i := 0; ; i++ {
			select {
			case <-done:
				return
			default:
			}
			junk[i%64] = make([]byte, 1<<12)
			runtime.GC()
		}
	}()
	return func() { close(done); wg.Wait() }
}

// narrow is the value a Go int on this platform holds for x (identity on 64-bit platforms): what is recorded is what
// was passed.
func narrow(x int64) int64 { return int64(int(x)) }

// buildVariant names the build constraints the harness (and with it the library) was compiled under, when they are
// not the default ones ("purego": the portable implementations that assembly-free and exotic targets get)
var buildVariant string

// flushEach: every event reaches the file at once (all commands but the bulk generators, which flush at unit boundaries)
var flushEach bool

func emit(e Event) {
	if strconv.IntSize == 32 || buildVariant != "" {
		if op, _ := e["op"].(string); op == "Reset" || op == "Cut" {
			if strconv.IntSize == 32 {
				e["arch"] = "386"
			}
			if buildVariant != "" {
				e["build"] = buildVariant
			}
		}
	}
	if op, _ := e["op"].(string); op == "Cut" {
		e["age_ms"] = int(time.Since(processStart) / (100 * time.Millisecond) * 100) // (a re-execution waits until it is as old)
	}
	b, err := json.Marshal(e)
	if err != nil {
		fatal(err)
	}
	emitMu.Lock()
	defer emitMu.Unlock()
	outW.Write(b)
	outW.WriteByte('\n')
	if flushEach || e["op"] == "Cut" {
		outW.Flush() // what was observed before a process died must be on disk
	}
	nEvents++
}

var lastCut int
var disturbOn bool
var cutEvery = 250
var curSource = "os" // kind of the source the harness installed last

// maybeCut marks a point where no specification state is carried over, so
// that the driver may split the trace there (one TLC process per shard).
// Echoes: a sample of the calls made by the data-level families is repeated later - 3, 60, 1 100, 2 300, 9 000 and
// 40 000 events later - so that anything that remembers earlier calls (bounded caches, memo tables, rings that
// wrap, counters) is asked again about an input after much else has happened.  Each echo is an ordinary event,
// validated natively.
type echo struct {
	due int
	run func()
}

var echoes []echo
var echoN int
var echoOn bool
var echoDist = []int{3, 60, 1100, 2300, 9000, 40000}

func scheduleEcho(run func()) {
	if !echoOn || concMode {
		return
	}
	echoN++
	if echoN%23 != 0 {
		return
	}
	echoes = append(echoes, echo{nEvents + echoDist[(echoN/23)%len(echoDist)], run})
}

func runEchoes(all bool) {
	if len(echoes) == 0 {
		return
	}
	on := echoOn
	echoOn = false // echoes do not schedule echoes
	var keep []echo
	for _, e := range echoes {
		if all || e.due <= nEvents {
			e.run()
		} else {
			keep = append(keep, e)
		}
	}
	echoes = keep
	echoOn = on
}

var disturbN int

// disturb: between the units of a data-level family, a rotation of calls that FAIL in every way the API can
// fail (a source dying after some bytes, unknown words after known ones, wrong counts and sizes).  Their own
// results are validated like any other event; their purpose is that state leaking out of a failed call
// (pooled buffers, caches) shows up in the family's events that follow.
func disturb() {
	disturbN++
	r := newRng(int64(disturbN), "disturb")
	lang := int64(r.intn(10))
	switch disturbN % 5 {
	case 0:
		src := &scriptReader{fill: r, after: "custom", script: []rstep{{K: 1 + r.intn(15)}, {K: 0, Err: "custom"}}}
		kind := curSource
		prev := swapSource(src, "script")
		recNewMnemonic(int64(12+3*r.intn(5)), lang, Event{"cls": "disturb"})
		swapSource(prev, kind)
	case 1:
		idx := indicesOf(r.bytes(sizes[r.intn(5)]))
		ws := strings.Split(sentence(idx, int(lang), " "), " ")
		ws[1+r.intn(len(ws)-1)] = "notaword"
		recCheck(strings.Join(ws, " "), lang, Event{"cls": "disturb"})
	case 2:
		idx := indicesOf(r.bytes(16))
		recCheck(sentence(idx[:5+r.intn(6)], int(lang), " "), lang, Event{"cls": "disturb"})
	case 3:
		recByEntropy(r.bytes(1+r.intn(60)), lang, Event{"fam": "disturb"})
	case 4:
		idx := indicesOf(r.bytes(sizes[r.intn(5)]))
		idx[len(idx)-1] ^= 1 + r.intn(7)
		recCheck(sentence(idx, int(lang), " "), lang, Event{"cls": "disturb"})
	}
}

func maybeCut() {
	if nEvents-lastCut >= cutEvery {
		emit(Event{"op": "Cut", "source": curSource})
		lastCut = nEvents
		if !concMode && disturbOn {
			disturb() // first thing in the new unit, so that a replay of the unit contains it
		}
		runEchoes(false)
	}
}

func fatal(a ...interface{}) {
	fmt.Fprintln(os.Stderr, append([]interface{}{"harness:"}, a...)...)
	os.Exit(2)
}

// units: a Go string as the specification's text units - code points, and
// -1-b for every byte b that is not part of a well-formed UTF-8 sequence.
func units(s string) []int {
	r := make([]int, 0, len(s))
	for i := 0; i < len(s); {
		c, sz := utf8.DecodeRuneInString(s[i:])
		if c == utf8.RuneError && sz <= 1 {
			r = append(r, -1-int(s[i]))
			i++
			continue
		}
		r = append(r, int(c))
		i += sz
	}
	return r
}

// fromUnits is the inverse of units.
func fromUnits(u []int) string {
	b := make([]byte, 0, len(u))
	for _, c := range u {
		if c < 0 {
			b = append(b, byte(-1-c))
		} else {
			b = utf8.AppendRune(b, rune(c))
		}
	}
	return string(b)
}

func ints(b []byte) []int {
	r := make([]int, len(b))
	for i, x := range b {
		r[i] = int(x)
	}
	return r
}

func toBytes(a []int) []byte {
	r := make([]byte, len(a))
	for i, x := range a {
		r[i] = byte(x)
	}
	return r
}

// errRec: an error value as observations (errors.Is against the three
// sentinels, message text).
func errRec(err error) Event {
	if err == nil {
		return Event{"nil": true, "entlen": false, "wordlen": false, "checksum": false, "msg": []int{}}
	}
	return Event{
		"nil":      false,
		"entlen":   errors.Is(err, bip39.ErrEntropyLen),
		"wordlen":  errors.Is(err, bip39.ErrWordLen),
		"checksum": errors.Is(err, bip39.ErrChecksumIncorrect),
		"msg":      units(err.Error()),
	}
}

// bigRec: an int of any size as sign + decimal digits, plus "v" when it fits
// comfortably into TLC's 32-bit integers.
func bigRec(v int64) Event {
	b := big.NewInt(v)
	neg := b.Sign() < 0
	ds := []int{}
	for _, c := range new(big.Int).Abs(b).String() {
		ds = append(ds, int(c-'0'))
	}
	e := Event{"neg": neg, "digits": ds, "fits": false, "v": 0}
	if v > -(1<<30) && v < (1<<30) {
		e["fits"], e["v"] = true, int(v)
	}
	return e
}

// langField: the Language argument as logged in every event.  Values outside
// +-2^30 are logged as the (unsupported) marker 2^30; String events carry the
// exact value in a bigRec.
func langField(l int64) int {
	if l > -(1<<30) && l < (1<<30) {
		return int(l)
	}
	return 1 << 30
}

// guarded runs f under recover and a watchdog.
type outcome struct {
	panicked bool
	panicTxt string
	timeout  bool
}

var watchdog = 120 * time.Second
var timeouts int

func guarded(f func()) (o outcome) {
	done := make(chan outcome, 1)
	go func() {
		var r outcome
		defer func() {
			if p := recover(); p != nil {
				r.panicked, r.panicTxt = true, fmt.Sprint(p)
			}
			done <- r
		}()
		f()
	}()
	select {
	case o = <-done:
	case <-time.After(watchdog):
		o.timeout = true
		timeouts++
	case <-spinCh:
		// the call keeps reading a scripted source that has reported its end or a failure thousands of times in a row:
		// it is not going to return (the reader has parked the goroutine; nothing more is logged)
		o.timeout = true
		timeouts++
	}
	return
}

// spin detection for scripted sources: failed reads in a row within one call (reset by recNewMnemonic)
var spinCh = make(chan struct{}, 1)
var failedReadsInCall int32

const spinLimit = 2000

func (o outcome) into(e Event) Event {
	e["panicked"], e["panic"], e["timeout"] = o.panicked, units(o.panicTxt), o.timeout
	if o.timeout && timeouts >= 3 {
		// three calls have hung: record this one and stop (the abandoned goroutines keep the CPUs busy)
		emit(e)
		emit(Event{"op": "Aborted", "why": units("three calls exceeded the watchdog")})
		closeOut()
		os.Exit(0)
	}
	return e
}

// golden data (used only to build inputs)
type goldenT struct {
	Lists [][][]int `json:"lists"`
	Files []string  `json:"files"`
	Vars  []string  `json:"vars"`
}

var golden goldenT
var goldenWords [10][]string

func dataDir() string {
	if d := os.Getenv("VERIF_DATA"); d != "" {
		return d
	}
	return "/verif/spec/data"
}

func loadGolden() {
	b, err := os.ReadFile(filepath.Join(dataDir(), "wordlists.json"))
	if err != nil {
		fatal(err)
	}
	if err := json.Unmarshal(b, &golden); err != nil {
		fatal(err)
	}
	for l := 0; l < 10; l++ {
		for _, w := range golden.Lists[l] {
			goldenWords[l] = append(goldenWords[l], fromUnits(w))
		}
	}
}

// splitmix64: the harness's only PRNG (seeded from VERIF_SEED and a stream id)
type rng struct{ s uint64 }

func newRng(seed int64, stream string) *rng {
	r := &rng{uint64(seed)*0x9E3779B97F4A7C15 + 0x1234567}
	for _, c := range []byte(stream) {
		r.s = (r.s ^ uint64(c)) * 0x100000001B3
		r.next()
	}
	return r
}
func (r *rng) next() uint64 {
	r.s += 0x9E3779B97F4A7C15
	z := r.s
	z = (z ^ (z >> 30)) * 0xBF58476D1CE4E5B9
	z = (z ^ (z >> 27)) * 0x94D049BB133111EB
	return z ^ (z >> 31)
}
func (r *rng) intn(n int) int { return int(r.next() % uint64(n)) }
func (r *rng) bytes(n int) []byte {
	b := make([]byte, n)
	for i := range b {
		b[i] = byte(r.next() >> 32)
	}
	return b
}
func (r *rng) perm(n int) []int {
	p := make([]int, n)
	for i := range p {
		p[i] = i
	}
	for i := n - 1; i > 0; i-- {
		j := r.intn(i + 1)
		p[i], p[j] = p[j], p[i]
	}
	return p
}

var sizes = []int{16, 20, 24, 28, 32}
