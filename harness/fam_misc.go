package main

import (
	"go/ast"
	"go/parser"
	"go/token"
	"math"
	"os"
	"path/filepath"
	"strconv"
	"strings"
	"time"

	"golang.org/x/text/unicode/norm"
)

var extremeInts = []int64{math.MinInt64, math.MinInt64 + 1, -(1 << 32) - 1, -(1 << 32), -(1 << 32) + 1, -(1 << 31) - 1, -(1 << 31), -(1 << 31) + 1,
	-(1 << 16), -256, -255, -10, -3, -2, -1, 10, 11, 12, 100, 255, 256, 257, 10000, 65535, 65536, (1 << 31) - 1, 1 << 31, (1 << 31) + 1,
	(1 << 32) - 1, 1 << 32, (1 << 32) + 1, (1 << 32) + 12, (1 << 32) + 24, (1 << 32) + 2, math.MaxInt64 - 1, math.MaxInt64,
	(1 << 31) + 12, -(1 << 32) + 12, -(1 << 32) + 24, (1 << 33) + 15, math.MaxInt64 - 6, math.MinInt64 + 20}

// wrapIntegers: v + k*2^p for the powers at which narrowing conversions and products such as n*4, n*11 or n*4/3
// wrap around, around the accepted sizes and the small language numbers
func wrapIntegers() []int64 {
	var out []int64
	for _, p := range []uint{8, 16, 29, 30, 31, 32, 33, 48, 60, 61, 62, 63} {
		for _, v := range []int64{0, 1, 2, 3, 9, 12, 15, 18, 21, 24, 27, -1, -12} {
			out = append(out, int64(uint64(1)<<p)+v, -int64(uint64(1)<<p)+v, int64(uint64(3)<<(p-1))+v)
		}
	}
	return out
}

func init() { extremeInts = append(extremeInts, wrapIntegers()...) }

// C16 / C14: Language.String over a window and the extremes
func runStrings(lo, hi int64) {
	for n := lo; n <= hi; n++ {
		maybeCut()
		recString(n, nil)
	}
	for _, n := range extremeInts {
		recString(n, nil)
	}
}

// C09: every entropy length, every word count
func runGates(tier string, seed int64, phase string) {
	r := newRng(seed, "gates")
	langs := []int64{2, int64(r.intn(10)), 5}
	if tier != "quick" {
		langs = []int64{0, 1, 2, 3, 4, 5, 6, 7, 8, 9, -1, 10}
	}
	if phase == "extreme" {
		// extreme word counts, each flushed before the call: a library that allocates or reads before
		// gating may take the process down (run by the driver in a child process under a memory limit)
		src := &scriptReader{fill: newRng(seed, "gates/bytes"), after: "data", quiet: true}
		swapSource(src, "counting")
		for _, lang := range langs {
			for _, n := range extremeInts {
				outW.Flush()
				recNewMnemonic(n, lang, Event{"fam": "extreme"})
				emit(Event{"op": "SourceTotal", "total": src.total})
			}
		}
		swapSource(osRandReader(), "os")
		return
	}
	for _, lang := range langs {
		recByEntropy(nil, lang, Event{"fam": "nil"})
		maxLen := 4096
		if tier != "quick" {
			maxLen = 16384
		}
		for n := 0; n <= maxLen; n++ {
			maybeCut()
			recByEntropy(r.bytes(n), lang, Event{"fam": "len"})
		}
	}
	for _, base := range []int{1 << 16, 1 << 20, 1 << 24} {
		for _, d := range []int{-4, -1, 0, 1, 4} {
			recByEntropy(make([]byte, base+d), langs[1], Event{"fam": "biglen"})
		}
	}
	// word counts under a counting source that always delivers
	src := &scriptReader{fill: newRng(seed, "gates/bytes"), after: "data"}
	swapSource(src, "counting")
	for _, lang := range langs {
		w := int64(4096)
		if tier != "quick" {
			w = 20000
		}
		for n := -w; n <= w; n++ {
			maybeCut()
			recNewMnemonic(n, lang, Event{"fam": "count"})
		}
	}
	emit(Event{"op": "SourceTotal", "total": src.total})
	// working sources that hand out their bytes in pieces (a pipe, a socket, a hardware generator): still working
	for _, ch := range []int{1, 7, 16, 31} {
		maybeCutNow()
		cs := &scriptReader{fill: newRng(seed, "gates/chunk"), after: "data", chunk: ch}
		swapSource(cs, "chunked")
		for _, lang := range langs {
			for _, n := range []int64{12, 15, 18, 21, 24, 13, 0, 27} {
				recNewMnemonic(n, lang, Event{"fam": "chunked"})
			}
		}
	}
	// working sources whose bytes all look alike (a zeroed device, a test fixture): still working
	for _, pat := range []string{"zero", "ones", "zero"} {
		maybeCutNow()
		ps := &scriptReader{fill: newRng(seed, "gates/const"), after: "data", pattern: pat}
		swapSource(ps, "script")
		for _, n := range []int64{12, 15, 18, 21, 24} {
			recNewMnemonic(n, langs[0], Event{"fam": "constant"})
		}
	}
	runSourcePanics(seed, langs[0])
	// the same accepted counts in a process that is no longer young, after an idle pause
	ageAtLeast(map[string]time.Duration{"quick": 6 * time.Second, "thorough": 70 * time.Second}[tier])
	maybeCutNow()
	as := &scriptReader{fill: newRng(seed, "gates/aged"), after: "data"}
	swapSource(as, "counting")
	for _, n := range []int64{12, 15, 18, 21, 24, 13, 12} {
		recNewMnemonic(n, langs[0], Event{"fam": "aged"})
	}
	swapSource(osRandReader(), "os")
}

// runSourcePanics: a source that panics inside Read (its own defect), the caller recovers, as a request handler
// does: every accepted count still works afterwards (nothing is claimed about the aborted call itself)
func runSourcePanics(seed int64, lang int64) {
	for _, n := range []int64{12, 15, 18, 21, 24} {
		maybeCutNow()
		ps := &scriptReader{fill: newRng(seed, "gates/panic"), after: "data", script: []rstep{{K: int(n) / 2}, {K: 0, Err: "panic"}}}
		swapSource(ps, "script")
		recNewMnemonic(n, lang, Event{"fam": "sourcepanic"})
		for _, m := range []int64{n, 12, 24, 13} {
			recNewMnemonic(m, lang, Event{"fam": "aftersourcepanic"})
		}
	}
}

// C08 (c): the source text of the lists, parsed (not imported)
var listFiles = []string{"chinese_simplified", "chinese_traditional", "english", "french", "italian", "japanese", "korean", "spanish", "czech", "portuguese"}

func repoDir() string {
	if d := os.Getenv("VERIF_REPO"); d != "" {
		return d
	}
	return "/repo"
}

func runListSource() {
	for l, f := range listFiles {
		maybeCut()
		fs := token.NewFileSet()
		af, err := parser.ParseFile(fs, filepath.Join(repoDir(), "internal/wordlist", f+".go"), nil, 0)
		if err != nil {
			emit(Event{"op": "ListSourceUnobservable", "lang": l, "why": units(err.Error())})
			continue
		}
		var words [][]int
		name := ""
		nvars := 0
		ok := true
		ast.Inspect(af, func(n ast.Node) bool {
			if vs, isv := n.(*ast.ValueSpec); isv && len(vs.Values) == 1 {
				if cl, isc := vs.Values[0].(*ast.CompositeLit); isc {
					nvars++
					name = vs.Names[0].Name
					for _, e := range cl.Elts {
						bl, isb := e.(*ast.BasicLit)
						if !isb {
							ok = false
							continue
						}
						s, err := strconv.Unquote(bl.Value)
						if err != nil {
							ok = false
						}
						words = append(words, units(s))
					}
				}
			}
			return true
		})
		if !ok || nvars != 1 {
			emit(Event{"op": "ListSourceUnobservable", "lang": l, "why": units("unexpected layout")})
			continue
		}
		emit(Event{"op": "ListSource", "lang": l, "file": units(f), "var": units(name), "words": words})
	}
}

// C08 (a)+(b): every index emitted through the API, and mapped back by validation
func runListCover(tier string, seed int64) {
	covSizes := []int{16}
	if tier != "quick" {
		covSizes = []int{16, 20, 24, 28, 32}
	}
	for pass := 0; pass < 2; pass++ {
		runListCoverPass(tier, seed+int64(pass)*7919, covSizes)
		if pass == 0 {
			// between the passes: validations that fail in every way, in every language (the lists observable
			// through the API must still be the canonical ones afterwards)
			r := newRng(seed, "cover/failures")
			for lang := 0; lang < 10; lang++ {
				maybeCut()
				idx := indicesOf(r.bytes(16))
				ws := strings.Split(sentence(idx, lang, " "), " ")
				ws[r.intn(12)] = "qqqq"
				recCheck(strings.Join(ws, " "), int64(lang), Event{"cls": "unknown"})
				recCheck(strings.Repeat("qqqq ", 11)+"qqqq", int64(lang), Event{"cls": "unknown"})
				idx[11] ^= 1
				recCheck(sentence(idx, lang, " "), int64(lang), Event{"cls": "badsum"})
				recCheck(sentence(idx[:10], lang, " "), int64(lang), Event{"cls": "short"})
				recCheck(sentence(idx, (lang+1)%10, " "), int64(lang), Event{"cls": "otherlist"})
			}
		}
	}
}

func runListCoverPass(tier string, seed int64, covSizes []int) {
	for lang := 0; lang < 10; lang++ {
		for _, size := range covSizes {
			r := newRng(seed, "cover/"+string(rune('a'+size))+string(rune('a'+lang)))
			famCover(size, r, func(ent []byte, tag Event) {
				maybeCut()
				out, err := recByEntropy(ent, int64(lang), tag)
				if err != nil {
					return
				}
				recCheck(out, int64(lang), Event{"cls": "covervalid"})
				// the same sentence with one word replaced by its list neighbour
				idx := indicesOf(ent)
				p := r.intn(len(idx))
				m := append([]int(nil), idx...)
				m[p] = (m[p] + 1 + r.intn(3)) % 2048
				recCheck(sentence(m, lang, " "), int64(lang), Event{"cls": "neighbour"})
			})
		}
	}
}

// ---- C14 ----------------------------------------------------------------

// hiddenSpaces: characters whose compatibility decomposition CONTAINS U+0020 although they are not spaces
// (spacing diacritics such as U+00B4, U+00A8, U+02DC, U+309B, U+FFE3): after NFKD they separate tokens
var hiddenSpaces []string

func loadHiddenSpaces() {
	if hiddenSpaces != nil {
		return
	}
	for _, cp := range pools.Decomposable {
		d := norm.NFKD.String(string(rune(cp)))
		if strings.Contains(d, " ") && d != " " {
			hiddenSpaces = append(hiddenSpaces, string(rune(cp)))
		}
	}
}

var mixSeps = []string{" ", " ", " ", "\n", "\t", "\r\n", "\v", "\f", "\u0085", "\u1680", "\u2028", "\u2029", "\u3000", "\u00a0", "  ", " \n"}

// runWhitespaceMix: list words joined by a mix of separators, so that the number of U+0020, the number of
// whitespace-separated tokens and the number of fields disagree in every way (C14, C03)
func runWhitespaceMix(seed int64, count int, langs []int64) {
	r := newRng(seed, "wsmix")
	loadHiddenSpaces()
	// sentences in which a spacing diacritic sits inside a word or replaces a junction: the number of tokens of the
	// NFKD form differs from the number of tokens of the raw text
	for k := 0; k < count/3+30; k++ {
		maybeCut()
		lang := langs[r.intn(len(langs))]
		l := listLang(lang)
		n := []int{11, 12, 14, 15, 17, 18, 20, 21, 23, 24}[r.intn(10)]
		idx := indicesOf(r.bytes(32))[:n]
		ws := strings.Split(sentence(idx, l, " "), " ")
		h := hiddenSpaces[r.intn(len(hiddenSpaces))]
		p := r.intn(n)
		switch r.intn(4) {
		case 0: // inside a word
			rs := []rune(ws[p])
			c := r.intn(len(rs) + 1)
			ws[p] = string(rs[:c]) + h + string(rs[c:])
		case 1: // after a word
			ws[p] += h
		case 2: // before a word
			ws[p] = h + ws[p]
		case 3: // as a junction
			if p+1 < n {
				ws[p] = ws[p] + h + ws[p+1]
				ws = append(ws[:p+1], ws[p+2:]...)
			}
		}
		recCheck(strings.Join(ws, " "), lang, Event{"cls": "hiddenspace"})
	}
	for k := 0; k < count; k++ {
		maybeCut()
		lang := langs[r.intn(len(langs))]
		l := listLang(lang)
		n := 10 + r.intn(17)
		idx := indicesOf(r.bytes(32))
		for len(idx) < n {
			idx = append(idx, 1+r.intn(2047))
		}
		idx = idx[:n]
		var sb strings.Builder
		odd := 1 + r.intn(3) // how many junctions are not a plain space
		for i, x := range idx {
			if i > 0 {
				if r.intn(n) < odd {
					sb.WriteString(mixSeps[3+r.intn(len(mixSeps)-3)])
				} else {
					sb.WriteString(" ")
				}
			}
			sb.WriteString(goldenWords[l][x])
		}
		s := sb.String()
		switch r.intn(6) {
		case 0:
			s = s + mixSeps[r.intn(len(mixSeps))]
		case 1:
			s = mixSeps[r.intn(len(mixSeps))] + s
		}
		recCheck(s, lang, Event{"cls": "wsmix"})
	}
}

func invalidUTF8Shapes() []string {
	out := invalidUTF8Short()
	// runs of continuation bytes, of lead bytes, and a lead byte followed by a long run, at lengths around
	// every plausible clipping / buffer boundary
	for _, n := range []int{2, 15, 16, 31, 32, 33, 47, 48, 49, 50, 63, 64, 65, 127, 128, 129, 255, 256, 1000} {
		out = append(out, strings.Repeat("\x80", n), strings.Repeat("\xbf\x9a", n/2+1), "\xe3"+strings.Repeat("\x81", n), strings.Repeat("\xf0", n))
	}
	return out
}

func invalidUTF8Short() []string {
	return []string{"\x80", "\xbf", "\xc3", "\xe3\x81", "\xf0\x9f\x98", "\xc0\xaf", "\xe0\x80\xaf", "\xed\xa0\x80", "\xed\xbf\xbf",
		"\xf4\x90\x80\x80", "\xf8\x88\x80\x80\x80", "\xff", "\xfe\xff", "a\x00b", "\x00", "abandon \xff abandon", "\xe3\x81\x82\xe3\x81"}
}

func runRobust(tier string, seed int64, phase string) {
	r := newRng(seed, "robust")
	langs := []int64{math.MinInt64, -(1 << 32) - 1, -(1 << 31), -10, -1, 0, 1, 2, 3, 4, 5, 6, 7, 8, 9, 10, 11, 255, 256, 1 << 31, math.MaxInt64}
	valid12 := sentence(indicesOf(r.bytes(16)), 2, " ")
	valid24j := sentence(indicesOf(r.bytes(32)), 5, "　")
	strs := append([]string{"", " ", "  ", "\t", "\n", "　", strings.Repeat(" ", 11), strings.Repeat(" ", 23), strings.Repeat(" ", 24),
		valid12, valid24j, strings.Repeat("a ", 12), strings.Repeat("abandon ", 24), "abandon", strings.Repeat("́", 40), "a" + strings.Repeat("́", 31),
		strings.Repeat("가", 50), "\U0010FFFF", "�", "ﷺ", strings.Repeat("ﷺ", 100), "ﬁ ½ ㍍ Ω"}, invalidUTF8Shapes()...)
	for _, l := range langs {
		maybeCut()
		recString(l, nil)
		for _, s := range strs {
			recCheck(s, l, Event{"cls": "robust"})
		}
		for _, n := range []int{-1, 0, 1, 15, 16, 17, 20, 24, 28, 31, 32, 33, 64} {
			if n < 0 {
				recByEntropy(nil, l, Event{"fam": "robust"})
			} else {
				recByEntropy(r.bytes(n), l, Event{"fam": "robust"})
			}
		}
	}
	// Language values at which narrowing conversions wrap around to a supported number
	for i, l := range wrapIntegers() {
		if tier == "quick" && i%3 != int(seed%3) {
			continue
		}
		maybeCut()
		recString(l, nil)
		recCheck(valid12, l, Event{"cls": "wraplang"})
		recByEntropy(r.bytes(16), l, Event{"fam": "wraplang"})
	}
	runUniform(seed, all10, "uniform")
	runSourcePanics(seed, 2)
	swapSource(osRandReader(), "os")
	// ill-formed UTF-8 inside otherwise valid sentences: as a whole token, glued to a word, inside a multi-byte word
	for _, lang := range all10 {
		idx := indicesOf(r.bytes(sizes[r.intn(5)]))
		shapes := invalidUTF8Shapes()
		for si, junk := range shapes {
			if tier == "quick" && si >= 17 && (si+lang)%5 != 0 { // the long runs: a fifth per language in the quick tier
				continue
			}
			maybeCut()
			ws := strings.Split(sentence(idx, lang, " "), " ")
			p := r.intn(len(ws))
			c := append([]string(nil), ws...)
			c[p] = junk
			recCheck(strings.Join(c, " "), int64(lang), Event{"cls": "badutf8"})
			c[p] = ws[p] + junk
			recCheck(strings.Join(c, " "), int64(lang), Event{"cls": "badutf8"})
			if len(ws[p]) > 2 {
				c[p] = ws[p][:len(ws[p])-1] + junk // cuts the last character of the word
				recCheck(strings.Join(c, " "), int64(lang), Event{"cls": "badutf8"})
			}
		}
		ws := strings.Split(sentence(idx, lang, " "), " ")
		ws[r.intn(len(ws))] = strings.Repeat(ws[0], 3000) // one very long token
		recCheck(strings.Join(ws, " "), int64(lang), Event{"cls": "longtoken"})
	}
	runWhitespaceMix(seed, map[string]int{"quick": 600, "thorough": 10000}[tier], langs)
	// fuzzed bytes
	nf := map[string]int{"quick": 300, "thorough": 5000}[tier]
	for i := 0; i < nf; i++ {
		maybeCut()
		b := r.bytes(r.intn(200))
		l := langs[r.intn(len(langs))]
		recCheck(string(b), l, Event{"cls": "fuzz"})
		if i%4 == 0 {
			recToSeed(string(b), string(r.bytes(r.intn(40))), false, Event{"cls": "fuzz"})
		}
	}
	for _, s := range strs {
		recToSeed(s, "", false, Event{"cls": "robust"})
		recToSeed("", s, false, Event{"cls": "robust"})
	}
	if phase == "extreme" {
		for _, l := range langs {
			for _, n := range extremeInts {
				outW.Flush()
				recNewMnemonic(n, l, Event{"fam": "robust"})
			}
		}
		if tier == "thorough" && strconv.IntSize == 64 {
			// arguments just beyond one gibibyte (fixed-size array views, 30-bit length fields): about 2.5 GB of memory
			big := strings.Repeat("a", 1<<30+1)
			recToSeedHuge(big, "", "mnemonic of 2^30+1 bytes")
			recToSeedHuge("", big[:1<<30-7], "passphrase of 2^30-7 bytes (salt of 2^30+1)")
			recCheckHuge(big, "2^30+1 bytes", 2)
		}
		return
	}
	// NewMnemonic: every count class x language class, on the default source and on failing sources
	for _, l := range langs {
		for _, n := range []int64{0, 1, 3, 9, 11, 12, 13, 15, 18, 21, 24, 25, 27, 48} {
			maybeCut()
			recNewMnemonic(n, l, Event{"fam": "robust"})
		}
	}
	src := &scriptReader{fill: newRng(seed, "robust/bytes"), after: "EOF"}
	swapSource(src, "script")
	for _, l := range langs {
		for _, n := range []int64{12, 24} {
			maybeCut()
			src.script, src.pos = []rstep{{K: 3}, {K: 0, Err: "custom"}}, 0
			recNewMnemonic(n, l, Event{"fam": "robust"})
			src.script, src.pos = nil, 0
			recNewMnemonic(n, l, Event{"fam": "robust"})
			// finite sources (a file, a bytes.Reader) that end after some bytes, in pieces, with the end reported alone or
			// alongside the last bytes: the call returns (seeded change C14l: a bare EOF after some bytes retried for ever)
			need := int(n + n/3)
			for _, sc := range [][]rstep{{{K: 5}, {K: 0, Err: "EOF"}}, {{K: need - 1}, {K: 0, Err: "EOF"}}, {{K: 1}, {K: 2}, {K: 0, Err: "EOF"}},
				{{K: need / 2, Err: "EOF"}}, {{K: 4}, {K: 0, Err: "UEOF"}}, {{K: need - 1}, {K: 1, Err: "EOF"}}} {
				src.script, src.pos = sc, 0
				recNewMnemonic(n, l, Event{"fam": "robust"})
			}
		}
	}
	swapSource(osRandReader(), "os")
	// huge inputs
	big := map[string]int{"quick": 1 << 22, "thorough": 1 << 24}[tier]
	recCheckHuge(strings.Repeat(" ", 1000000), "10^6 spaces", 2)
	recCheckHuge(strings.Repeat("a", big), "ascii", 2)
	recCheckHuge(strings.Repeat("é", big/2), "non-NFKD", 3)
	recCheckHuge(strings.Repeat("　", big/3), "U+3000", 5)
	recCheckHuge(strings.Repeat("\xff", big/4), "invalid bytes", 2)
	recCheckHuge(strings.Repeat("abandon ", big/8), "many words", 2)
	recToSeedHuge(strings.Repeat("a", big), "", "ascii mnemonic")
	recToSeedHuge("", strings.Repeat("é", big/2), "non-NFKD passphrase")
	recToSeedHuge(strings.Repeat("\xff", big/4), strings.Repeat("́", 1000), "invalid bytes + marks")
	recByEntropy(make([]byte, 1<<20), 2, Event{"fam": "robust"})
}
