// goldenlists parses <repo>/internal/wordlist/*.go with go/parser (source text,
// not the compiled package) and writes the ten lists as JSON:
// {"lists": [[[cp..]..2048]..10], "files": [...], "vars": [...], "sha256": [...]}
// in Language order.  Used once to snapshot spec/data/wordlists.json at the
// pinned commit, and by the C08 check to log ListSource events.
package main

import (
	"crypto/sha256"
	"encoding/hex"
	"encoding/json"
	"fmt"
	"go/ast"
	"go/parser"
	"go/token"
	"os"
	"path/filepath"
	"strconv"
	"strings"
)

var order = []string{"chinese_simplified", "chinese_traditional", "english", "french", "italian", "japanese", "korean", "spanish", "czech", "portuguese"}

func main() {
	repo := os.Args[1]
	out := map[string]interface{}{}
	var lists [][][]int
	var vars, hashes []string
	for _, f := range order {
		fs := token.NewFileSet()
		af, err := parser.ParseFile(fs, filepath.Join(repo, "internal/wordlist", f+".go"), nil, 0)
		if err != nil {
			fmt.Fprintln(os.Stderr, err)
			os.Exit(2)
		}
		var words []string
		var name string
		ast.Inspect(af, func(n ast.Node) bool {
			if vs, ok := n.(*ast.ValueSpec); ok && len(vs.Values) == 1 {
				if cl, ok := vs.Values[0].(*ast.CompositeLit); ok {
					name = vs.Names[0].Name
					for _, e := range cl.Elts {
						if bl, ok := e.(*ast.BasicLit); ok {
							s, _ := strconv.Unquote(bl.Value)
							words = append(words, s)
						}
					}
				}
			}
			return true
		})
		h := sha256.Sum256([]byte(strings.Join(words, "\n") + "\n"))
		var l [][]int
		for _, w := range words {
			c := []int{}
			for _, r := range w {
				c = append(c, int(r))
			}
			l = append(l, c)
		}
		lists = append(lists, l)
		vars = append(vars, name)
		hashes = append(hashes, hex.EncodeToString(h[:]))
	}
	out["lists"], out["files"], out["vars"], out["sha256"] = lists, order, vars, hashes
	json.NewEncoder(os.Stdout).Encode(out)
}
