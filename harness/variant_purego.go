//go:build purego

package main

func init() { buildVariant = "purego" }
