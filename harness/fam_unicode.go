package main

import (
	"encoding/json"
	"os"
	"path/filepath"
	"strings"

	"golang.org/x/text/unicode/norm"
)

// Unicode input classes (C04, C10, C11).  golang.org/x/text is used here only
// to *produce* other spellings (NFC/NFD/NFKC/NFKD forms) of an input; that two
// spellings are equivalent is established by TLC with the specification's own
// NFKD, and expected seeds/verdicts come from TLC.

type poolsT struct {
	Decomposable []int   `json:"decomposable"`
	Marks        [][]int `json:"marks"`
	Letters      []int   `json:"letters"`
}

var pools poolsT

func loadPools() {
	b, err := os.ReadFile(filepath.Join(dataDir(), "unicode_pools.json"))
	if err != nil {
		fatal(err)
	}
	if err := json.Unmarshal(b, &pools); err != nil {
		fatal(err)
	}
}

func fullwidth(s string) string {
	var sb strings.Builder
	for _, c := range s {
		if c >= 0x21 && c <= 0x7E {
			sb.WriteRune(c - 0x21 + 0xFF01)
		} else {
			sb.WriteRune(c)
		}
	}
	return sb.String()
}

type variant struct{ name, s string }

// spellings of s that have the same NFKD form
func spellings(s string, latin bool) []variant {
	vs := []variant{{"asis", s}, {"nfc", norm.NFC.String(s)}, {"nfd", norm.NFD.String(s)}, {"nfkc", norm.NFKC.String(s)}, {"nfkd", norm.NFKD.String(s)}}
	if latin {
		vs = append(vs, variant{"fullwidth", fullwidth(norm.NFC.String(s))})
	}
	// keep only spellings that decompose to the same text (x/text's composition pairs runes by their low 16 bits,
	// so e.g. U+E0041 U+0303 "composes" to U+00C3); TLC establishes the equivalence again with its own NFKD
	want := norm.NFKD.String(s)
	out := vs[:0]
	for _, v := range vs {
		if norm.NFKD.String(v.s) == want {
			out = append(out, v)
		}
	}
	return out
}

// maxRunOK: the decomposed text has no run of more than 25 non-starters (the
// stream-safe limit of x/text is 30; longer runs are generated only by the F3 probes)
func maxRunOK(s string) bool {
	run := 0
	d := norm.NFKD.String(s)
	for i := 0; i < len(d); {
		p := norm.NFKD.PropertiesString(d[i:])
		if p.CCC() != 0 {
			run++
			if run > 25 {
				return false
			}
		} else {
			run = 0
		}
		i += p.Size()
	}
	return true
}

func randomUnicode(r *rng, n int) string {
	var sb strings.Builder
	for i := 0; i < n; i++ {
		switch r.intn(8) {
		case 0, 1:
			sb.WriteRune(rune(pools.Decomposable[r.intn(len(pools.Decomposable))]))
		case 2, 3:
			sb.WriteRune(rune(pools.Marks[r.intn(len(pools.Marks))][0]))
		case 4:
			sb.WriteRune(rune(pools.Letters[r.intn(len(pools.Letters))]))
		case 5:
			sb.WriteRune(rune(0x20 + r.intn(0x5F)))
		case 6:
			sb.WriteString([]string{" ", "\u3000", "\u00a0", "\u2003", "é", "é", "が", "が", "각", "각", "ﬁ", "㍍", "½", "Ω", "Å", "豈"}[r.intn(16)])
		case 7:
			sb.WriteRune(rune([]int{0x1F600, 0x1D400, 0x2F800, 0x1D15E, 0x10400, 0xE0041}[r.intn(6)]))
		}
	}
	s := sb.String()
	if !maxRunOK(s) {
		return randomUnicode(r, n/2)
	}
	return s
}

// characters whose compatibility decomposition is many times longer than they are (U+FDFA: 3 -> 33 bytes)
var expanding = []string{"\ufdfa", "\ufdfb", "\u3316", "\u3300", "\u334d", "\u3315", "\u33a2", "\u3389"}

func expansionStrings(r *rng) []string {
	var out []string
	for _, ch := range expanding {
		for _, n := range []int{7, 8, 18, 26, 40, 52} {
			out = append(out, strings.Repeat(ch, n))
		}
	}
	out = append(out, strings.Repeat("\ufdfa abandon ", 26), strings.Repeat("\u3316x", 30))
	return out
}

var compatStrings = []string{"㍍", "ﬁ", "½", "Ω", "豈", "ｶﾞ", "Å", "ẛ̣", "ǆ", "㈱", "①", "ﷺ", "ｱｲｳ", "ⅷ", "℃", "é", "é", "が", "が", "각", "한글", "ǖ", "ǖ"}

// marks that reorder: ccc 230 before 220, stacked
var reorderStrings = []string{"ạ̀", "ạ̀", "ạ̀", "q̣̇", "q̣̇", "a͜b̧̀", "ḍ̇", "ộ", "ệ́", "àֱֲ", "a" + strings.Repeat("́", 25), "a" + strings.Repeat("̖́", 12)}

var groupID int

func nextGroup() int { groupID++; return groupID }

// ---- C04 -----------------------------------------------------------------

func strOfLen(r *rng, n int, ascii bool) string {
	var sb strings.Builder
	for sb.Len() < n {
		if ascii || n-sb.Len() < 4 {
			sb.WriteByte(byte('a' + r.intn(26)))
		} else {
			sb.WriteString([]string{"é", "が", "한", "ñ", "ž"}[r.intn(5)])
		}
	}
	return sb.String()[:n]
}

func runSeeds(tier string, seed int64) {
	r := newRng(seed, "seeds")
	q := tier == "quick"
	var ms, ps []string
	// mnemonic classes: empty, garbage, valid sentences in several forms, wrong checksum, wrong count
	ms = append(ms, "", "x", "not a mnemonic at all", "abandon abandon")
	// U+0000 is valid UTF-8 and MnemonicToSeed never validates its input
	ms = append(ms, "\x00", "a\x00b", "\x00abandon", "abandon ability\x00", "abandon\x00\x00ability able", "\x00\x00")
	ps = append(ps, "\x00", "pass\x00word", "\x00TREZOR", "TREZOR\x00", "\x01\x02\x7f")
	for _, lang := range []int{2, 5, 6, 3, 7} {
		idx := indicesOf(r.bytes(sizes[r.intn(5)]))
		s := sentence(idx, lang, " ")
		for _, v := range spellings(s, lang == 2 || lang == 3 || lang == 7) {
			ms = append(ms, v.s)
		}
		ms = append(ms, sentence(idx, lang, "　"))
		idx[len(idx)-1] ^= 1
		ms = append(ms, sentence(idx, lang, " ")) // wrong checksum: the seed must still be the formula's value
		ms = append(ms, sentence(idx[:7], lang, " "))
	}
	ms = append(ms, compatStrings[:8]...)
	ms = append(ms, reorderStrings[:4]...)
	// passphrase classes
	ps = append(ps, "", "TREZOR", "a", " ", "pass phrase")
	ps = append(ps, compatStrings...)
	ps = append(ps, reorderStrings...)
	ps = append(ps, "́abc", "̖́x", "゙か", "ᅡᆨ", "́", "̧́́") // passphrases *beginning* with combining marks / jamo
	ps = append(ps, fullwidth("Password123"), "パスワード", "ﾊﾟｽﾜｰﾄﾞ", "㍍㌖", "\U0001D400\U0001D401")
	// lengths around the HMAC block (key > 128 bytes is hashed first), and long
	for _, n := range []int{1, 127, 128, 129, 130, 255, 256, 4096} {
		ms = append(ms, strOfLen(r, n, true), strOfLen(r, n, false))
		ps = append(ps, strOfLen(r, n, n%2 == 0))
	}
	count := 0
	emitSeed := func(m, p string, cls string) {
		maybeCut()
		recToSeed(m, p, count%5 == 0, Event{"cls": cls})
		count++
	}
	// every mnemonic class with three passphrases, every passphrase class with three mnemonics
	for i, m := range ms {
		for k := 0; k < 3; k++ {
			emitSeed(m, ps[(i*7+k*13)%len(ps)], "mclass")
		}
	}
	for i, p := range ps {
		for k := 0; k < 3; k++ {
			emitSeed(ms[(i*5+k*11)%len(ms)], p, "pclass")
		}
	}
	// list words in four forms as mnemonic and as passphrase
	nw := 40
	if !q {
		nw = 1500
	}
	for k := 0; k < nw; k++ {
		lang := []int{3, 5, 6, 7, 0, 8}[k%6]
		w := goldenWords[lang][r.intn(2048)]
		vs := spellings(w, false)
		v := vs[r.intn(len(vs))]
		if k%2 == 0 {
			emitSeed(v.s, "", "word-"+v.name)
		} else {
			emitSeed("x", v.s, "word-"+v.name)
		}
	}
	// random Unicode
	nr := 60
	if !q {
		nr = 3000
	}
	for k := 0; k < nr; k++ {
		emitSeed(randomUnicode(r, 1+r.intn(24)), randomUnicode(r, r.intn(16)), "random")
	}
	// every password length and every salt length across the SHA-512 padding and HMAC block boundaries
	nl := 300
	if q {
		nl = 270
	}
	for n := 0; n <= nl; n++ {
		if q && n > 140 && n%3 != 0 && !(n >= 230 && n <= 262) {
			continue
		}
		emitSeed(strOfLen(r, n, true), "pw", "mlen")
		emitSeed("abandon ability", strOfLen(r, n, n%2 == 0), "plen")
	}
	// long runs of characters that expand many times under NFKD (any fixed expansion estimate is too small)
	for i, x := range expansionStrings(r) {
		if q && i%3 != int(seed%3) {
			continue
		}
		emitSeed(x, "", "expanding")
		emitSeed("abandon", x, "expanding")
	}
	// the same concatenation split at different points between mnemonic and passphrase (a cache or a buffer keyed
	// by the joined text must not confuse them), and argument pairs swapped
	for k := 0; k < 12; k++ {
		t := randomUnicode(r, 6+r.intn(10)) + "mnemonic" + strOfLen(r, 4+r.intn(6), true)
		rs := []rune(t)
		i, j := 1+r.intn(len(rs)-2), 1+r.intn(len(rs)-2)
		emitSeed(string(rs[:i]), string(rs[i:]), "boundary")
		emitSeed(string(rs[:j]), string(rs[j:]), "boundary")
		emitSeed(string(rs[i:]), string(rs[:i]), "boundary")
		emitSeed(t, "", "boundary")
		emitSeed("", t, "boundary")
	}
	// the literal "mnemonic" inside the arguments: A | "mnemonic" | B | "mnemonic" | C can be read as
	// (A, B+"mnemonic"+C) or as (A+"mnemonic"+B, C): consecutive calls whose password||salt concatenations coincide
	for k := 0; k < 8; k++ {
		A, B, C := strOfLen(r, r.intn(12), true), strOfLen(r, r.intn(8), k%2 == 0), strOfLen(r, r.intn(10), true)
		if k == 0 {
			A, B, C = "", "", ""
		}
		emitSeed(A, B+"mnemonic"+C, "literal")
		emitSeed(A+"mnemonic"+B, C, "literal")
		emitSeed(A, B+"mnemonic"+C, "literal")
		emitSeed(A+"mnemonic", B+C, "literal")
		emitSeed(A+"mnemonic"+B+"mnemonic", C, "literal")
	}
	// large inputs (beyond any 16-bit length, buffer or chunk size), validated like the small ones
	for _, n := range map[string][]int{"quick": {65535, 65537}, "thorough": {65535, 65536, 65537, 100000, 1 << 20}}[tier] {
		emitSeed(strOfLen(r, n, true), "TREZOR", "large")
		emitSeed("abandon", strOfLen(r, n, true), "large")
	}
	// F3 probes (known finding): starter + k identical marks
	for _, k := range []int{31, 40, 61} {
		emitSeed("abandon", "a"+strings.Repeat("́", k), "f3probe")
		emitSeed("a"+strings.Repeat("́", k), "", "f3probe")
	}
	recheckSeeds()
}

// ---- C11 -----------------------------------------------------------------

func seedGroup(vs []variant, pass bool, other string, cls string) {
	maybeCut()
	g := nextGroup()
	seen := map[string]bool{}
	for _, v := range vs {
		if seen[v.s] && v.name != "asis" {
			continue
		}
		seen[v.s] = true
		if pass {
			recToSeed(other, v.s, false, Event{"group": g, "variant": v.name, "cls": cls})
		} else {
			recToSeed(v.s, other, false, Event{"group": g, "variant": v.name, "cls": cls})
		}
	}
}

// coverSentences: valid 12-word sentences (other counts rotate) that together contain every word of the list
func coverSentences(lang int, r *rng) [][]int {
	var out [][]int
	perm := r.perm(2048)
	pos := 0
	k := 0
	for pos < 2048 {
		size := sizes[k%5]
		k++
		ent := r.bytes(size)
		bits := make([]byte, 8*size)
		for i := range bits {
			bits[i] = ent[i/8] >> uint(7-i%8) & 1
		}
		full := 8 * size / 11
		for p := 0; p < full && pos < 2048; p++ {
			setGroup(bits, p, perm[pos])
			pos++
		}
		out = append(out, indicesOf(bitsToBytes(bits)))
	}
	return out
}

func langsForUnicode(tier string, seed int64) (fullLangs, sampleLangs []int) {
	if tier != "quick" {
		return all10, nil
	}
	// the four lists whose words change under composition completely, a sample of the rest
	return []int{3, 5, 6, 7}, []int{0, 1, 2, 4, 8, 9}
}

func runSeedGroups(tier string, seed int64) {
	r := newRng(seed, "seedgroups")
	full, sample := langsForUnicode(tier, seed)
	do := func(lang int, idx []int) {
		s := sentence(idx, lang, " ")
		latin := lang == 2 || lang == 3 || lang == 4 || lang == 7 || lang == 8 || lang == 9
		vs := spellings(s, latin && r.intn(4) == 0)
		vs = append(vs, variant{"sep3000", sentence(idx, lang, "　")})
		if r.intn(3) == 0 {
			vs = append(vs, variant{"nfc+sep3000", norm.NFC.String(sentence(idx, lang, "　"))})
		}
		seedGroup(vs, false, []string{"", "TREZOR", "é"}[r.intn(3)], "sentence")
	}
	for _, lang := range full {
		for _, idx := range coverSentences(lang, r) {
			do(lang, idx)
		}
	}
	for _, lang := range sample {
		cs := coverSentences(lang, r)
		for k := 0; k < 6; k++ {
			do(lang, cs[r.intn(len(cs))])
		}
	}
	// passphrases from the compatibility / combining classes in several forms
	for _, p := range append(append([]string{}, compatStrings...), reorderStrings...) {
		seedGroup(spellings(p, false), true, "abandon", "passphrase")
	}
	np := map[string]int{"quick": 60, "thorough": 8000}[tier]
	for k := 0; k < np; k++ {
		p := randomUnicode(r, 1+r.intn(20))
		seedGroup(spellings(p, false), true, "x", "randompass")
		if k%3 == 0 {
			seedGroup(spellings(p, false), false, "y", "randommnemonic")
		}
	}
	// long runs of high-expansion compatibility characters in several spellings
	for i, x := range expansionStrings(r) {
		if tier == "quick" && i%4 != int(seed%4) {
			continue
		}
		seedGroup(spellings(x, false), i%2 == 0, "w", "expanding")
	}
	// long texts (several hundred bytes, beyond any internal buffer size) in several spellings
	nlong := map[string]int{"quick": 24, "thorough": 400}[tier]
	for k := 0; k < nlong; k++ {
		var sb strings.Builder
		target := 300 + r.intn(900)
		for sb.Len() < target {
			sb.WriteString(strings.Repeat("x", r.intn(40)))
			sb.WriteString(randomUnicode(r, 1+r.intn(6)))
		}
		s := sb.String()
		seedGroup(spellings(s, false), k%2 == 0, "z", "longtext")
	}
	// tens of kilobytes of text that is not in normal form (normalising it takes long enough for collections to
	// complete meanwhile), derived while the collector is kept busy
	stopGC, stopGC2, stopGC3 := gcStorm(), gcStorm(), gcStorm()
	defer stopGC2()
	defer stopGC3()
	jp := norm.NFC.String(sentence(coverSentences(5, r)[0], 5, "　"))
	for _, kb := range map[string][]int{"quick": {16, 40}, "thorough": {16, 40, 64, 96, 128}}[tier] {
		unit := "caf\u00e9 na\u00efve \u30ac\uff4b \uac00 "
		big := strings.Repeat(unit, kb*1024/len(unit))
		seedGroup([]variant{{"nfc", norm.NFC.String(big)}, {"nfkd", norm.NFKD.String(big)}, {"nfd", norm.NFD.String(big)}, {"nfc-again", norm.NFC.String(big)}}, true, jp, "bigtext")
	}
	stopGC()
	// F3 probes (known finding): marks of ccc 230 and 220 straddling the 30-non-starter boundary, two orders
	a := "a" + strings.Repeat("́", 30) + "̖"
	b := "a" + "̖" + strings.Repeat("́", 30)
	seedGroup([]variant{{"order1", a}, {"order2", b}}, true, "abandon", "f3probe")
	seedGroup([]variant{{"order1", a}, {"order2", b}}, false, "", "f3probe")
}

// ---- C10 -----------------------------------------------------------------

func checkGroup(vs []variant, lang int, cls string) {
	maybeCut()
	g := nextGroup()
	seen := map[string]bool{}
	for _, v := range vs {
		if seen[v.s] && v.name != "asis" {
			continue
		}
		seen[v.s] = true
		recCheck(v.s, int64(lang), Event{"group": g, "variant": v.name, "cls": cls})
	}
}

func runCheckGroups(tier string, seed int64) {
	r := newRng(seed, "checkgroups")
	full, sample := langsForUnicode(tier, seed)
	do := func(lang int, idx []int, cls string) {
		s := sentence(idx, lang, " ")
		latin := lang == 2 || lang == 3 || lang == 4 || lang == 7 || lang == 8 || lang == 9
		vs := spellings(s, latin)
		vs = append(vs, variant{"sep3000", sentence(idx, lang, "　")})
		switch r.intn(4) {
		case 0:
			vs = append(vs, variant{"sepA0", sentence(idx, lang, "\u00a0")})
		case 1:
			vs = append(vs, variant{"sep2003", sentence(idx, lang, "\u2003")})
		case 2:
			vs = append(vs, variant{"nfc+sep3000", norm.NFC.String(sentence(idx, lang, "　"))})
		case 3: // mixed separators
			ws := strings.Split(s, " ")
			var sb strings.Builder
			for i, w := range ws {
				if i > 0 {
					sb.WriteString([]string{" ", "\u3000", "\u00a0", "\u2003", "\u2009", "\u202f", "\u205f"}[r.intn(7)])
				}
				if r.intn(2) == 0 {
					w = norm.NFC.String(w)
				}
				sb.WriteString(w)
			}
			vs = append(vs, variant{"mixed", sb.String()})
		}
		checkGroup(vs, lang, cls)
	}
	for _, lang := range full {
		for _, idx := range coverSentences(lang, r) {
			do(lang, idx, "valid")
		}
	}
	for _, lang := range append(append([]int{}, full...), sample...) {
		cs := coverSentences(lang, r)
		for k := 0; k < 8; k++ {
			idx := append([]int(nil), cs[r.intn(len(cs))]...)
			do(lang, idx, "valid")
			// invalid sentences in several spellings: wrong word, wrong count
			idx[r.intn(len(idx))] = r.intn(2048)
			do(lang, idx, "substituted")
			do(lang, idx[:len(idx)-1-r.intn(2)], "short")
			// a token that is no list word (at the end, at the start, in the middle), in several spellings: the error
			// path sees text in normal form and text that is not
			ws := strings.Split(sentence(cs[r.intn(len(cs))], lang, " "), " ")
			pos := []int{len(ws) - 1, 0, r.intn(len(ws))}[k%3]
			ws[pos] = []string{"zzzz", "\uac00\uac01\uac02", "caf\u00e9s", "\u30ac\u30ae\u30b0", "\uff51\uff51"}[r.intn(5)]
			us := strings.Join(ws, " ")
			vs := spellings(us, false)
			vs = append(vs, variant{"nfc+sep3000", norm.NFC.String(strings.Join(ws, "\u3000"))})
			checkGroup(vs, lang, "unknownword")
		}
	}
	// Chinese sentences with list words typed as code points that DEcompose to them (compatibility ideographs,
	// Kangxi radicals): same NFKD form as the plain sentence
	inv := map[string][]string{}
	for _, rg := range [][2]rune{{0x2E80, 0x2FD5}, {0x3038, 0x303A}, {0xF900, 0xFAFF}, {0x2F800, 0x2FA1D}} {
		for c := rg[0]; c <= rg[1]; c++ {
			if d := norm.NFKD.String(string(c)); d != string(c) {
				inv[d] = append(inv[d], string(c))
			}
		}
	}
	for _, lang := range []int{0, 1} {
		cs := coverSentences(lang, r)
		n := 0
		for _, idx := range cs {
			ws := strings.Split(sentence(idx, lang, " "), " ")
			alt := append([]string(nil), ws...)
			hit := 0
			for i, w := range ws {
				if a := inv[w]; len(a) > 0 {
					alt[i] = a[r.intn(len(a))]
					hit++
				}
			}
			if hit == 0 {
				continue
			}
			checkGroup([]variant{{"asis", strings.Join(ws, " ")}, {"compat", strings.Join(alt, " ")}, {"compat+sep3000", strings.Join(alt, "\u3000")},
				{"nfc(compat)", norm.NFC.String(strings.Join(alt, " "))}}, lang, "compatideograph")
			if n++; n >= map[string]int{"quick": 12, "thorough": 400}[tier] {
				break
			}
		}
	}
	// letters whose case mapping and compatibility decomposition do not commute (capital dotted I, letter-like and
	// mathematical capitals, full-width capitals, title-case digraphs) in place of a plain letter of a valid sentence,
	// and whole sentences in capitals: whatever the verdict, it is the same for every spelling
	caseRepl := []struct{ base, with string }{{"i", "\u0130"}, {"i", "\u2110"}, {"c", "\u2102"}, {"h", "\u210d"}, {"n", "\u2115"}, {"r", "\u211d"},
		{"z", "\u2124"}, {"a", "\U0001d400"}, {"e", "\uff25"}, {"s", "\u017f"}, {"k", "\u212a"}, {"a", "\u00c5"}, {"o", "\u2134"}}
	for _, lang := range []int{2, 3, 4, 7, 8, 9} {
		cs := coverSentences(lang, r)
		for k, cr := range caseRepl {
			if tier == "quick" && (k+lang)%3 != int(seed%3) {
				continue
			}
			base := sentence(cs[r.intn(len(cs))], lang, " ")
			if i := strings.Index(base, cr.base); i >= 0 {
				one := base[:i] + cr.with + base[i+len(cr.base):]
				checkGroup(spellings(one, false), lang, "casecompat")
				all := strings.ReplaceAll(strings.ToUpper(base), strings.ToUpper(cr.base), cr.with)
				checkGroup(spellings(all, false), lang, "casecompat")
			}
		}
	}
	// redundant separators (doubled, leading, trailing) in several spellings: not canonical, but still equivalent
	for _, lang := range all10 {
		cs := coverSentences(lang, r)
		for k := 0; k < 4; k++ {
			idx := cs[r.intn(len(cs))]
			ws := strings.Split(sentence(idx, lang, " "), " ")
			p := 1 + r.intn(len(ws)-1)
			var vs []variant
			for _, sp := range []string{" ", "\u3000", "\u00a0", "\u2003"} {
				var s string
				switch k {
				case 0: // doubled separator, the second one in this spelling
					s = strings.Join(ws[:p], " ") + " " + sp + strings.Join(ws[p:], " ")
				case 1: // doubled, both in this spelling
					s = strings.Join(ws[:p], " ") + sp + sp + strings.Join(ws[p:], " ")
				case 2:
					s = sp + strings.Join(ws, " ")
				case 3:
					s = strings.Join(ws, " ") + sp
				}
				vs = append(vs, variant{"redundant" + sp, s})
			}
			checkGroup(vs, lang, "redundant")
		}
	}
	// arbitrary Unicode strings paired with their other normal forms
	nr := map[string]int{"quick": 100, "thorough": 20000}[tier]
	for k := 0; k < nr; k++ {
		s := randomUnicode(r, 1+r.intn(40))
		checkGroup(spellings(s, false), r.intn(10), "random")
	}
}

// runNFKDProbes: strings with their golang.org/x/text NFKD form, for the cross-check of the specification's
// own NFKD (CPython data) and of its model of x/text's stream-safe behaviour (tool qualification, not a property)
func runNFKDProbes(seed int64, n int) {
	r := newRng(seed, "nfkdprobe")
	for k := 0; k < n; k++ {
		maybeCut()
		var s string
		switch k % 5 {
		case 0, 1, 2:
			s = randomUnicode(r, 1+r.intn(30))
		case 3: // long runs of non-starters, mixed classes
			var sb strings.Builder
			sb.WriteString("a")
			for i := 0; i < 20+r.intn(60); i++ {
				sb.WriteRune(rune(pools.Marks[r.intn(len(pools.Marks))][0]))
				if r.intn(25) == 0 {
					sb.WriteString("b")
				}
			}
			s = sb.String()
		case 4:
			w := goldenWords[[]int{3, 5, 6, 7}[r.intn(4)]][r.intn(2048)]
			s = norm.NFC.String(w) + strings.Repeat("\u0301", r.intn(40)) + strings.Repeat("\u0316", r.intn(3))
		}
		emit(Event{"op": "NFKDProbe", "in": units(s), "xtext": units(norm.NFKD.String(s))})
	}
}
