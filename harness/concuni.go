package main

import (
	"strconv"
	"sync"

	"github.com/islishude/bip39"
	"golang.org/x/text/unicode/norm"
)

// runConcUni: callers holding different texts that are not yet in normal form validate them and derive seeds at
// the same time (C10, C11, C12).  Every caller ("wallet") owns one sentence in several equivalent spellings and
// works through them round after round; in every round all callers are released together from a barrier, derive a
// seed and then validate twenty times.  After the join the results are logged wallet by wallet as groups of
// equivalent spellings - one event per distinct observation (a result seen 3 000 times is one event with
// count 3000; a result seen once is an event, too) - so that they are validated natively (a valid sentence is
// accepted in every spelling, a seed is the KDF value) and against each other inside the group.
func runConcUni(tier string, seed int64) {
	concMode = true
	r := newRng(seed, "concuni")
	W, R := 12, 150
	if tier == "thorough" {
		W, R = 16, 1500
	}
	langs := []int{5, 6, 3, 5, 8, 6, 0, 9, 3, 1, 5, 6, 8, 3, 9, 6}
	type wallet struct {
		lang   int
		vs     []variant
		pass   string
		checks []map[string]int // per variant: distinct outcome (validity, error text) -> how often it was observed
		errOf  map[string]error
		seeds  []map[string]int // per variant: distinct seed -> how often
		o      outcome
	}
	ws := make([]*wallet, W)
	for i := range ws {
		lang := langs[i%len(langs)]
		idx := indicesOf(r.bytes(sizes[r.intn(5)]))
		s := sentence(idx, lang, " ")
		all := spellings(s, false)
		all = append(all, variant{"nfc+sep3000", norm.NFC.String(sentence(idx, lang, "　"))})
		var vs []variant
		seen := map[string]bool{}
		for _, v := range all {
			if !seen[v.s] {
				seen[v.s] = true
				vs = append(vs, v)
			}
		}
		ws[i] = &wallet{lang: lang, vs: vs, pass: norm.NFC.String("café 가각 " + strconv.Itoa(i))}
	}
	emit(Event{"op": "Cut", "source": curSource})
	for _, w := range ws {
		w.errOf = map[string]error{}
		for range w.vs {
			w.checks, w.seeds = append(w.checks, map[string]int{}), append(w.seeds, map[string]int{})
		}
	}
	// a barrier that opens once per round
	var mu sync.Mutex
	cond := sync.NewCond(&mu)
	roundNo, arrived := 0, 0
	await := func() {
		mu.Lock()
		my := roundNo
		arrived++
		if arrived == W {
			arrived = 0
			roundNo++
			cond.Broadcast()
		} else {
			for roundNo == my {
				cond.Wait()
			}
		}
		mu.Unlock()
	}
	stopGC := func() {}
	if seed%2 == 1 { // every other process runs under a busy collector
		stopGC = gcStorm()
	}
	var wg sync.WaitGroup
	for _, w := range ws {
		wg.Add(1)
		go func(w *wallet) {
			defer wg.Done()
			for round := 0; round < R; round++ {
				await()
				if w.o.panicked || w.o.timeout {
					continue // keeps the barrier going for the others
				}
				o := guarded(func() {
					k := round % len(w.vs)
					w.seeds[k][string(bip39.MnemonicToSeed(w.vs[k].s, w.pass))]++
					for t := 0; t < 20; t++ {
						k := (round + t) % len(w.vs)
						err := bip39.CheckMnemonic(w.vs[k].s, bip39.Language(w.lang))
						valid := bip39.IsMnemonicValid(w.vs[k].s, bip39.Language(w.lang))
						key := strconv.FormatBool(valid) + "/"
						if err != nil {
							key += err.Error()
						}
						w.checks[k][key]++
						if _, ok := w.errOf[key]; !ok {
							w.errOf[key] = err
						}
					}
				})
				if o.panicked || o.timeout {
					w.o = o
				}
			}
		}(w)
	}
	wg.Wait()
	stopGC()
	for wi, w := range ws {
		if w.o.panicked || w.o.timeout {
			emit(w.o.into(Event{"op": "Check", "in": units(w.vs[0].s), "lang": w.lang, "err": errRec(nil), "valid": false, "in_same": true,
				"conc": true, "cls": "concuni", "g": wi}))
			continue
		}
		g := nextGroup()
		for k, v := range w.vs {
			for key, n := range w.checks[k] {
				emit(Event{"op": "Check", "in": units(v.s), "lang": w.lang, "err": errRec(w.errOf[key]), "valid": key[:4] == "true", "in_same": true,
					"group": g, "variant": v.name, "cls": "concuni", "conc": true, "g": wi, "count": n, "panicked": false, "timeout": false})
			}
		}
		g2 := nextGroup()
		for k, v := range w.vs {
			for sd, n := range w.seeds[k] {
				emit(Event{"op": "ToSeed", "m": units(v.s), "p": units(w.pass), "seed": ints([]byte(sd)), "len": len(sd), "cap": len(sd), "aliased": false,
					"alias_checked": false, "in_same": true, "group": g2, "variant": v.name, "cls": "concuni", "conc": true, "g": wi, "count": n,
					"panicked": false, "timeout": false})
			}
		}
	}
}
