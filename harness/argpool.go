package main

func runAbstractStep(st pstep, seed int64) { fatal("prog: unknown step", st.Op) }
