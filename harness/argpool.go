package main

import (
	"fmt"
	"strings"

	"golang.org/x/text/unicode/norm"
)

// Concretisation of abstract program steps (Drive_History.tla): deterministic
// in (seed, class, language, variant), so the same abstract argument is the
// same concrete argument in every history and process.  Every event carries
// "argid" naming the abstract argument; Trace.tla keeps the first result per
// argid and requires every later call with equal arguments to return the same.

func listLang(lang int64) int {
	if lang >= 0 && lang <= 9 {
		return int(lang)
	}
	return 2
}

func poolEntropy(seed int64, cls string, v int) []byte {
	size := map[string]int{"e16": 16, "e20": 20, "e24": 24, "e28": 28, "e32": 32, "e16z": 16, "bad17": 17, "bad0": 0, "bad33": 33}[cls]
	b := newRng(seed, fmt.Sprintf("pool/ent/%s/%d", cls, v)).bytes(size)
	if cls == "e16z" {
		b[0], b[1] = 0, 0
	}
	return b
}

func poolSentence(seed int64, cls string, lang int64, v int) string {
	l := listLang(lang)
	r := newRng(seed, fmt.Sprintf("pool/sent/%s/%d/%d", cls, lang, v))
	idx := indicesOf(r.bytes(sizes[(v+int(r.intn(5)))%5]))
	switch cls {
	case "valid":
		return sentence(idx, l, " ")
	case "badsum":
		idx[len(idx)-1] = (idx[len(idx)-1] + 1 + r.intn(5)) % 2048
		return sentence(idx, l, " ")
	case "unknown":
		ws := strings.Split(sentence(idx, l, " "), " ")
		ws[r.intn(len(ws))] = "zzzz"
		return strings.Join(ws, " ")
	case "alien":
		return sentence(idx, (l+1+r.intn(9))%10, " ")
	case "nfc":
		return norm.NFC.String(sentence(idx, l, " "))
	case "sep3000":
		return sentence(idx, l, "　")
	case "fullwidth":
		return fullwidth(norm.NFC.String(sentence(idx, l, " ")))
	case "short":
		return sentence(idx[:11], l, " ")
	case "long":
		long := append(append([]int(nil), idx...), idx...)
		long = append(long, idx...)
		return sentence(long[:25], l, " ")
	case "empty":
		return ""
	case "tabs":
		return sentence(idx, l, "\t")
	}
	fatal("unknown sentence class", cls)
	return ""
}

func poolSeedArgs(seed int64, cls string, v int) (string, string) {
	r := newRng(seed, fmt.Sprintf("pool/seed/%s/%d", cls, v))
	switch cls {
	case "ascii":
		return sentence(indicesOf(r.bytes(16)), 2, " "), []string{"", "TREZOR"}[v%2]
	case "jp":
		return sentence(indicesOf(r.bytes(24)), 5, "　"), "㍍ガバヴァぱばぐゞちぢ十人十色"
	case "compat":
		return compatStrings[r.intn(len(compatStrings))], reorderStrings[r.intn(len(reorderStrings))]
	case "long":
		return strOfLen(r, 300, false), strOfLen(r, 200, true)
	case "lit1": // two argument pairs whose password||"mnemonic"||passphrase concatenations coincide
		return "wallet", "seed" + "mnemonic" + "TREZOR" + string(rune('0'+v))
	case "lit2":
		return "wallet" + "mnemonic" + "seed", "TREZOR" + string(rune('0'+v))
	}
	fatal("unknown seed class", cls)
	return "", ""
}

func runAbstractStep(st pstep, seed int64) { runAbstractStepG(st, seed, -1) }

func tag(id string, g int) Event {
	if g < 0 {
		return Event{"argid": id}
	}
	return Event{"argid": id, "g": g, "conc": true}
}

func runAbstractStepG(st pstep, seed int64, g int) {
	switch st.Op {
	case "ent":
		id := fmt.Sprintf("ent/%s/%d/%d", st.Cls, st.Lang, st.Var)
		ent := poolEntropy(seed, st.Cls, st.Var)
		keep := append([]byte(nil), ent...)
		recByEntropy(ent, st.Lang, tag(id, g))
		emit(Event{"op": "Buf", "before": ints(keep), "after": ints(ent)})
	case "chk":
		src := st.Lang
		if st.Src != nil {
			src = *st.Src
		}
		id := fmt.Sprintf("chk/%s/%d/%d/%d", st.Cls, src, st.Lang, st.Var)
		recCheck(poolSentence(seed, st.Cls, src, st.Var), st.Lang, tag(id, g))
	case "seed":
		id := fmt.Sprintf("seed/%s/%d", st.Cls, st.Var)
		m, p := poolSeedArgs(seed, st.Cls, st.Var)
		recToSeed(m, p, st.Var%2 == 0 && g < 0, tag(id, g))
	case "str":
		recString(st.N, tag(fmt.Sprintf("str/%d", st.N), g))
	default:
		fatal("prog: unknown step", st.Op)
	}
	if observeMaps && g < 0 {
		mapLens()
	}
}
