package main

import (
	"strconv"
	"sync"
	"time"

	"github.com/islishude/bip39"
)

// runConCheck: validations that overlap in time, with inputs chosen so that any leak between calls changes a
// verdict (C03, C12).  For every size there is a valid sentence V and a sentence W made of list words whose last
// word carries V's checksum bits instead of its own: W is invalid, but it would pass with V's checksum.  Half the
// goroutines validate V, the other half W, as fast as they can for a fixed time.  One event per distinct
// observation (with its count) is logged after the join and validated natively.
func runConCheck(tier string, seed int64) {
	concMode = true
	r := newRng(seed, "concheck")
	budget := map[string]time.Duration{"quick": 700 * time.Millisecond, "thorough": 6 * time.Second}[tier]
	const G = 16
	emit(Event{"op": "Cut", "source": curSource, "concheck_seed": seed, "concheck_tier": tier})
	for _, size := range sizes {
		for _, lang := range []int{2, r.intn(10)} {
			cs := size / 4 // checksum bits
			var v, w []int
			for {
				v, w = indicesOf(r.bytes(size)), indicesOf(r.bytes(size))
				mask := 1<<uint(cs) - 1
				if v[len(v)-1]&mask != w[len(w)-1]&mask {
					w[len(w)-1] = w[len(w)-1]&^mask | v[len(v)-1]&mask
					break
				}
			}
			sents := []string{sentence(v, lang, " "), sentence(w, lang, " ")}
			type obs struct {
				n       int
				err     error
				crashed bool
			}
			seen := make([]map[string]*obs, G)
			start := make(chan struct{})
			deadline := time.Now().Add(budget)
			var wg sync.WaitGroup
			for gi := 0; gi < G; gi++ {
				wg.Add(1)
				seen[gi] = map[string]*obs{}
				go func(gi int) {
					defer wg.Done()
					s := sents[gi%2]
					<-start
					for k := 0; ; k++ {
						if k%64 == 0 && time.Now().After(deadline) {
							return
						}
						var err error
						var valid bool
						o := guarded(func() {
							err = bip39.CheckMnemonic(s, bip39.Language(lang))
							valid = bip39.IsMnemonicValid(s, bip39.Language(lang))
						})
						key := strconv.FormatBool(valid) + "/" + strconv.FormatBool(o.panicked || o.timeout) + "/"
						if err != nil {
							key += err.Error()
						}
						if x := seen[gi][key]; x != nil {
							x.n++
						} else {
							seen[gi][key] = &obs{1, err, o.panicked || o.timeout}
						}
						if o.panicked || o.timeout {
							return
						}
					}
				}(gi)
			}
			close(start)
			wg.Wait()
			for gi := 0; gi < G; gi++ {
				for key, x := range seen[gi] {
					emit(Event{"op": "Check", "in": units(sents[gi%2]), "lang": lang, "err": errRec(x.err), "valid": key[:4] == "true", "in_same": true,
						"conc": true, "cls": "concheck", "g": gi, "count": x.n, "panicked": x.crashed, "timeout": false})
				}
			}
		}
	}
	runConCheckMixed(tier, seed, budget)
}

// runConCheckMixed: validations under DIFFERENT languages that overlap in time (a process serving users of several
// languages).  Every goroutine has one language and cycles through a valid sentence, a sentence of list words with a
// wrong last word, a valid sentence of a neighbour's language (acceptable count, no token in this list) and a
// sentence that is one word short: verdict and kind of error are those of the call made alone (C03, C12, C15;
// seeded change C15k: a one-entry "last language" cache kept in two separate atomics).
func runConCheckMixed(tier string, seed int64, budget time.Duration) {
	r := newRng(seed, "concheck/mixed")
	const G = 16
	for round, K := range []int{2, 5, 3} {
		perm := r.perm(10)
		size := sizes[(round+int(seed))%len(sizes)]
		type tcase struct {
			s    string
			lang int
		}
		cases := make([][]tcase, G)
		for gi := 0; gi < G; gi++ {
			lang, other := perm[gi%K], perm[(gi+1)%K]
			v := indicesOf(r.bytes(size))
			w := append([]int(nil), v...)
			w[len(w)-1] ^= 1 + r.intn(15) // the checksum bits of another last word
			cases[gi] = []tcase{{sentence(v, lang, " "), lang}, {sentence(w, lang, " "), lang}, {sentence(v, other, " "), lang},
				{sentence(v[:len(v)-1], lang, " "), lang}}
		}
		type obs struct {
			n       int
			err     error
			crashed bool
		}
		seen := make([]map[string]*obs, G)
		start := make(chan struct{})
		deadline := time.Now().Add(budget)
		var wg sync.WaitGroup
		for gi := 0; gi < G; gi++ {
			wg.Add(1)
			seen[gi] = map[string]*obs{}
			go func(gi int) {
				defer wg.Done()
				<-start
				for k := 0; ; k++ {
					if k%64 == 0 && time.Now().After(deadline) {
						return
					}
					c := cases[gi][k%len(cases[gi])]
					var err error
					var valid bool
					o := guarded(func() {
						err = bip39.CheckMnemonic(c.s, bip39.Language(c.lang))
						valid = bip39.IsMnemonicValid(c.s, bip39.Language(c.lang))
					})
					key := strconv.Itoa(k%len(cases[gi])) + "/" + strconv.FormatBool(valid) + "/" + strconv.FormatBool(o.panicked || o.timeout) + "/"
					if err != nil {
						key += err.Error()
					}
					if x := seen[gi][key]; x != nil {
						x.n++
					} else {
						seen[gi][key] = &obs{1, err, o.panicked || o.timeout}
					}
					if o.panicked || o.timeout {
						return
					}
				}
			}(gi)
		}
		close(start)
		wg.Wait()
		for gi := 0; gi < G; gi++ {
			for key, x := range seen[gi] {
				c := cases[gi][int(key[0]-'0')]
				emit(Event{"op": "Check", "in": units(c.s), "lang": c.lang, "err": errRec(x.err), "valid": key[2:6] == "true", "in_same": true,
					"conc": true, "cls": "concheck", "g": gi, "count": x.n, "panicked": x.crashed, "timeout": false})
			}
		}
	}
}
