package main

import (
	"crypto/rand"
	"os"
	"strconv"
	"syscall"
	"time"
)

// slowSourceMs: which processes include a slow-source call, and how slow (VERIF_SLOW_MS overrides; 0 = none)
func slowSourceMs(n, lang, seed int64) int {
	if v := os.Getenv("VERIF_SLOW_MS"); v != "" {
		ms, _ := strconv.Atoi(v)
		return ms
	}
	return 0
}

// mark writes to an invalid descriptor: a no-op that is visible to strace and
// delimits the system calls made by one library call.
func mark(s string) { syscall.Write(987, []byte("VERIF-MARK-"+s)) }

// runOSProc: one fresh process on the default source (C07).  The driver runs
// it under strace and inserts the getrandom results it observed between the
// markers as OSRandom events.
func runOSProc(n int64, lang int64, seed int64) {
	// calibration: is a read of crypto/rand.Reader visible to strace at all?
	buf := make([]byte, 16)
	mark("CAL-BEGIN")
	rand.Read(buf)
	mark("CAL-END")
	emit(Event{"op": "OSCalibration", "bytes": ints(buf)})
	// a larger request first, then the process's own count twice: storage recycled between calls of
	// different sizes must not leak into a mnemonic
	for k, nn := range []int64{24, n, n} {
		disturbBeforeDraw(k, lang, seed) // (k = 0: nothing, the first draw of the process stays cold)
		emit(Event{"op": "OSMark", "id": k})
		mark("BEGIN")
		recNewMnemonic(nn, lang, Event{"default_source": true})
		mark("END")
	}
	// the pre-swap source is crypto/rand.Reader itself
	src := &scriptReader{fill: newRng(seed, "osproc"), after: "data"}
	swapSource(src, "script")
	recNewMnemonic(n, lang, nil)
	// sources that fail for a while or for ever: nothing but the source's bytes may end up in a mnemonic
	for i, sc := range [][]rstep{{{K: 0, Err: "EINTR"}}, {{K: 5}, {K: 0, Err: "EAGAIN"}}, {{K: 3}, {K: 0, Err: "temporary"}}, {{K: 0, Err: "EOF"}}} {
		src.script, src.pos, src.after = sc, 0, []string{"EINTR", "EAGAIN", "data", "EOF"}[i]
		recNewMnemonic(n, lang, nil)
	}
	src.script, src.pos, src.after = nil, 0, "data"
	// sources whose output has a special shape (all zero, leading zero byte, all ones, one bit): what comes out of
	// NewMnemonic is the encoding of exactly those bytes
	for _, pat := range []string{"zero", "lead0", "ones", "lead0ff", "onebit", "zero", "zero", "ones", "ones"} {
		src.pattern, src.total = pat, 0 // (the same constant stream several calls in a row: each is its encoding)
		recNewMnemonic(n, lang, nil)
	}
	src.pattern = ""
	// a working source that is slow to answer (an entropy-starved boot, a hardware generator): the mnemonic is still
	// made of that source's bytes and of nothing else
	if slowMs := slowSourceMs(n, lang, seed); slowMs > 0 {
		src.total, src.delay = 0, time.Duration(slowMs)*time.Millisecond
		srcDelayMs = slowMs
		recNewMnemonic(n, lang, nil)
		src.delay, srcDelayMs = 0, 0
	}
	swapSource(osRandReader(), "os")
	disturbBeforeDraw(3, lang, seed)
	emit(Event{"op": "OSMark", "id": 3})
	mark("BEGIN")
	recNewMnemonic(n, lang, Event{"default_source": true})
	mark("END")
	// in some processes: an idle pause, then a run of calls on the default source (read-ahead, idle timers,
	// start-up deadlines: the output is still fresh OS randomness, call after call)
	if ms, _ := strconv.Atoi(os.Getenv("VERIF_IDLE_MS")); ms > 0 {
		time.Sleep(time.Duration(ms) * time.Millisecond)
		for k := 0; k < 8; k++ {
			disturbBeforeDraw(4+k, lang, seed)
			emit(Event{"op": "OSMark", "id": 4 + k})
			mark("BEGIN")
			recNewMnemonic([]int64{n, 24, 12, 15}[k%4], lang, Event{"default_source": true})
			mark("END")
		}
	}
}

// disturbBeforeDraw: other exported calls, ending in different ways, made right before a draw from the default source
// (outside the strace markers).  What NewMnemonic returns next is still the encoding of the bytes the OS delivers to it:
// nothing a validation, derivation or rejected request left behind takes part (seeded change C07m: a shared SHA-256 state
// left dirty by a rejected checksum).  Which call comes last differs from draw to draw.
func disturbBeforeDraw(k int, lang int64, seed int64) {
	if k == 0 {
		return
	}
	l := int(lang)
	if l < 0 || l > 9 {
		l = 1
	}
	L := int64(l)
	r := newRng(seed, "osdisturb/"+strconv.Itoa(k))
	ent := r.bytes(sizes[k%len(sizes)])
	idx := indicesOf(ent)
	good := sentence(idx, l, " ")
	wrong := append([]int(nil), idx...)
	wrong[len(wrong)-1] ^= 1 // list words, accepted count, wrong checksum
	unknown := good + "x"
	short := sentence(idx[:len(idx)-1], l, " ")
	steps := [][]string{{"checksum"}, {"unknown", "entlen"}, {"encode", "wordlen", "checksum"}, {"valid", "seed"}, {"checksum", "checksum"},
		{"seed", "unknown", "checksum"}, {"wordcount"}, {"encode", "checksum", "valid", "checksum"}}[(k-1)%8]
	for _, st := range steps {
		switch st {
		case "checksum":
			recCheck(sentence(wrong, l, " "), L, Event{"cls": "subst"})
		case "unknown":
			recCheck(unknown, L, Event{"cls": "damage"})
		case "wordlen":
			recCheck(short, L, Event{"cls": "drop"})
		case "valid":
			recCheck(good, L, Event{"cls": "valid"})
		case "encode":
			recByEntropy(ent, L, nil)
		case "entlen":
			recByEntropy(ent[:len(ent)-1], L, nil)
		case "seed":
			recToSeed(good, "", false, nil)
		case "wordcount":
			recNewMnemonic(13, L, nil)
		}
	}
}
