package main

import (
	"crypto/sha256"
)

// Families of entropies (DESIGN 5, C01). Go's sha256 is used here only to
// *pick inputs* (e.g. an entropy whose last word has a wanted index); the
// expected mnemonic always comes from TLC.

func bitsToBytes(bits []byte) []byte {
	out := make([]byte, len(bits)/8)
	for i, b := range bits {
		if b != 0 {
			out[i/8] |= 1 << uint(7-i%8)
		}
	}
	return out
}

func setGroup(bits []byte, pos int, idx int) { // 11-bit group number pos (0-based), as far as it lies inside bits
	for k := 0; k < 11; k++ {
		i := pos*11 + k
		if i < len(bits) {
			bits[i] = byte(idx >> uint(10-k) & 1)
		}
	}
}

func lastIndex(ent []byte) int {
	n := len(ent)
	cs := uint(n / 4)
	h := sha256.Sum256(ent)
	tail := 0
	// trailing 11-cs entropy bits
	for k := 8*n - (11 - int(cs)); k < 8*n; k++ {
		tail = tail<<1 | int(ent[k/8]>>uint(7-k%8)&1)
	}
	return tail<<cs | int(h[0]>>(8-cs))
}

type encFam struct {
	name string
	gen  func(size int, r *rng, emitEnt func(ent []byte, tag Event))
}

// (a) Latin square: at every entropy-only position the index runs through all 2048 values
func famLatin(size int, r *rng, f func([]byte, Event)) {
	w := size / 4 * 3
	a, b := make([]int, w), make([]int, w)
	for p := range a {
		a[p], b[p] = 2*r.intn(1024)+1, r.intn(2048)
	}
	for k := 0; k < 2048; k++ {
		bits := make([]byte, 8*size)
		for p := 0; p < w; p++ {
			setGroup(bits, p, (a[p]*k+b[p])%2048)
		}
		f(bitsToBytes(bits), Event{"fam": "latin", "k": k})
	}
}

// (b) every index at the last position (hence every checksum value at that width)
func famLast(size int, r *rng, f func([]byte, Event)) {
	cs := uint(size / 4)
	for t := 0; t < 2048; t++ {
		for tries := 0; ; tries++ {
			ent := r.bytes(size)
			// force trailing 11-cs bits to t>>cs
			tail := t >> cs
			nb := 11 - int(cs)
			for k := 0; k < nb; k++ {
				i := 8*size - nb + k
				bit := byte(tail >> uint(nb-1-k) & 1)
				ent[i/8] = ent[i/8]&^(1<<uint(7-i%8)) | bit<<uint(7-i%8)
			}
			if lastIndex(ent) == t {
				f(ent, Event{"fam": "last", "k": t})
				break
			}
			if tries > 100000 {
				fatal("famLast: search failed")
			}
		}
	}
}

// (c) every value of the first SHA-256 byte
func famHash(size int, r *rng, f func([]byte, Event)) {
	seen := map[byte]bool{}
	for len(seen) < 256 {
		ent := r.bytes(size)
		h := sha256.Sum256(ent)
		if !seen[h[0]] {
			seen[h[0]] = true
			f(ent, Event{"fam": "hash", "k": int(h[0])})
		}
	}
}

// (d) runs of 0/1 bits at either end, single bits
func famRuns(size int, r *rng, f func([]byte, Event)) {
	for k := 0; k <= size; k++ { // k leading zero / one bytes, rest random / ones / zeros
		for v, fillv := range []byte{0x00, 0xFF} {
			for mode := 0; mode < 3; mode++ {
				ent := r.bytes(size)
				if mode == 1 {
					for i := range ent {
						ent[i] = ^fillv
					}
				}
				if mode == 2 && k < size { // first non-run byte small but non-zero
					ent[k] = byte(1 + r.intn(3))
				}
				for i := 0; i < k; i++ {
					ent[i] = fillv
				}
				f(ent, Event{"fam": "lead", "k": k, "v": v})
				ent2 := r.bytes(size)
				for i := 0; i < k; i++ {
					ent2[size-1-i] = fillv
				}
				f(ent2, Event{"fam": "trail", "k": k, "v": v})
			}
		}
	}
	for i := 0; i < 8*size; i++ { // single set bit, single cleared bit
		e0, e1 := make([]byte, size), make([]byte, size)
		for j := range e1 {
			e1[j] = 0xFF
		}
		e0[i/8] |= 1 << uint(7-i%8)
		e1[i/8] &^= 1 << uint(7-i%8)
		f(e0, Event{"fam": "bit1", "k": i})
		f(e1, Event{"fam": "bit0", "k": i})
	}
	// 0^a 1^b 0^c bit runs
	for t := 0; t < 64; t++ {
		a := r.intn(8 * size)
		b := r.intn(8*size - a + 1)
		bits := make([]byte, 8*size)
		for i := a; i < a+b; i++ {
			bits[i] = 1
		}
		f(bitsToBytes(bits), Event{"fam": "run", "k": t})
	}
}

// (h) extremal words: every group selects one of the longest / shortest words of the language (by UTF-8 bytes
// and by code points): the longest and shortest sentences the encoder can emit
var famExtremalLang int

func famExtremal(size int, r *rng, f func([]byte, Event)) {
	words := goldenWords[famExtremalLang]
	type wl struct{ ix, bytes, runes int }
	var ws []wl
	for i, w := range words {
		ws = append(ws, wl{i, len(w), len([]rune(w))})
	}
	pick := map[int]bool{}
	for pass := 0; pass < 4; pass++ {
		best := 0
		for i := range ws {
			a, b := ws[i], ws[best]
			var better bool
			switch pass {
			case 0:
				better = a.bytes > b.bytes
			case 1:
				better = a.bytes < b.bytes
			case 2:
				better = a.runes > b.runes
			case 3:
				better = a.runes < b.runes
			}
			if better {
				best = i
			}
		}
		pick[ws[best].ix] = true
	}
	for ix := range pick {
		bits := make([]byte, 8*size)
		for g := 0; g*11 < len(bits); g++ {
			setGroup(bits, g, ix)
		}
		f(bitsToBytes(bits), Event{"fam": "extremal", "k": ix})
		// and mixed with a second extremal word
		for jx := range pick {
			if jx != ix {
				for g := 0; g*11 < len(bits); g += 2 {
					setGroup(bits, g, jx)
				}
				f(bitsToBytes(bits), Event{"fam": "extremal", "k": ix*2048 + jx})
				break
			}
		}
	}
}

// (i) mixed: entropies of all sizes and languages in random order (size and language change from call to call,
// larger before smaller as often as the reverse)
func runMixed(seed int64, count int, check bool) {
	r := newRng(seed, "mixed")
	for k := 0; k < count; k++ {
		maybeCut()
		size := sizes[r.intn(5)]
		lang := int64(r.intn(10))
		ent := r.bytes(size)
		if r.intn(8) == 0 {
			ent[0] = 0
		}
		out, err := recByEntropy(ent, lang, Event{"fam": "mixed", "k": k})
		if check && err == nil {
			recCheck(out, lang, Event{"fam": "mixed", "gen": true})
		}
	}
}

func famRandom(count int) func(int, *rng, func([]byte, Event)) {
	return func(size int, r *rng, f func([]byte, Event)) {
		for k := 0; k < count; k++ {
			f(r.bytes(size), Event{"fam": "random", "k": k})
		}
	}
}

// (f) all single-bit flips of seeded base entropies (C05)
func famFlips(bases int) func(int, *rng, func([]byte, Event)) {
	return func(size int, r *rng, f func([]byte, Event)) {
		for b := 0; b < bases; b++ {
			base := r.bytes(size)
			f(base, Event{"fam": "flipbase", "k": b})
			for i := 0; i < 8*size; i++ {
				e := append([]byte(nil), base...)
				e[i/8] ^= 1 << uint(7-i%8)
				f(e, Event{"fam": "flip", "k": i, "base": b})
			}
		}
	}
}

// (g) index cover: 12-word-size entropies whose words run through all 2048 indices (C08)
func famCover(size int, r *rng, f func([]byte, Event)) {
	w := size / 4 * 3
	full := (8 * size) / 11 // groups that lie entirely inside the entropy
	_ = w
	perm := r.perm(2048)
	for k := 0; k*full < 2048; k++ {
		bits := make([]byte, 8*size)
		for i := range bits {
			bits[i] = byte(r.intn(2))
		}
		for p := 0; p < full; p++ {
			setGroup(bits, p, perm[(k*full+p)%2048])
		}
		f(bitsToBytes(bits), Event{"fam": "cover", "k": k})
	}
}

// runEncode: the ByEntropy events of the encode families; with check=true each
// output is fed back into CheckMnemonic (C02).
func runEncode(tier string, seed int64, which map[string]bool, langsFor func(fam string, size int, r *rng) []int, check bool) {
	fams := []encFam{{"latin", famLatin}, {"last", famLast}, {"hash", famHash}, {"runs", famRuns},
		{"random", famRandom(map[string]int{"quick": 100, "thorough": 2000}[tier])},
		{"flips", famFlips(map[string]int{"quick": 2, "thorough": 10}[tier])}, {"cover", famCover}, {"extremal", famExtremal}}
	for _, fm := range fams {
		if !which[fm.name] {
			continue
		}
		for _, size := range sizes {
			lr := newRng(seed, "langs/"+fm.name)
			for _, lang := range langsFor(fm.name, size, lr) {
				r := newRng(seed, fm.name+"/"+string(rune('a'+size))+"/"+string(rune('a'+lang)))
				famExtremalLang = lang
				fm.gen(size, r, func(ent []byte, tag Event) {
					maybeCut()
					out, err := recByEntropy(ent, int64(lang), tag)
					if check && err == nil {
						recCheck(out, int64(lang), Event{"fam": tag["fam"], "gen": true})
					}
				})
			}
		}
	}
}
