package main

import (
	"encoding/json"
	"os"
	"strconv"
	"strings"
	"sync"
	"sync/atomic"
	"time"
)

// replay: re-execute the calls of a recorded unit (a replay file written by
// bin/check) against the real code and record them again.
type replayT struct {
	Property string  `json:"property"`
	Unit     []Event `json:"unit"`
}

func intsOf(v interface{}) []int {
	a, _ := v.([]interface{})
	r := make([]int, len(a))
	for i, x := range a {
		f, _ := x.(float64)
		r[i] = int(f)
	}
	return r
}

func bigOf(v interface{}) int64 {
	m, _ := v.(map[string]interface{})
	var sb strings.Builder
	if b, _ := m["neg"].(bool); b {
		sb.WriteByte('-')
	}
	for _, d := range intsOf(m["digits"]) {
		sb.WriteByte(byte('0' + d))
	}
	n, _ := strconv.ParseInt(sb.String(), 10, 64)
	return n
}

func num(v interface{}) int64 { f, _ := v.(float64); return int64(f) }

// fixedReader replays recorded Read results exactly, then behaves like an endless source.
type fixedReader struct {
	steps []Event
	pos   int
	fill  *rng
	delay time.Duration // every Read of the current call takes this long
}

func (f *fixedReader) Read(p []byte) (int, error) {
	if f.delay > 0 {
		time.Sleep(f.delay)
	}
	if f.pos >= len(f.steps) {
		if atomic.LoadInt32(&failedReadsInCall) >= spinLimit {
			// the recorded call was cut off by the spin detection (scriptReader.Read): its source went on failing
			select {
			case spinCh <- struct{}{}:
			default:
			}
			select {}
		}
		b := f.fill.bytes(len(p))
		copy(p, b)
		emit(Event{"op": "Read", "asked": len(p), "gave": len(p), "bytes": ints(b), "errkind": ""})
		return len(p), nil
	}
	st := f.steps[f.pos]
	f.pos++
	if g, _ := st["gc"].(bool); g && f.pos > 1 {
		settle()
	}

	b := toBytes(intsOf(st["bytes"]))
	if len(b) > len(p) {
		b = b[:len(p)]
	}
	copy(p, b)
	kind, _ := st["errkind"].(string)
	if kind == "panic" {
		emit(Event{"op": "Read", "asked": len(p), "gave": 0, "bytes": []int{}, "errkind": "panic"})
		panic("verif: injected panic inside the source's Read")
	}
	err := errOfKind(kind)
	if err != nil && len(b) == 0 {
		atomic.AddInt32(&failedReadsInCall, 1)
	} else {
		atomic.StoreInt32(&failedReadsInCall, 0)
	}
	emit(Event{"op": "Read", "asked": len(p), "gave": len(b), "bytes": ints(b), "errkind": kind})
	return len(b), err
}

func extraOf(e Event, keys ...string) Event {
	x := Event{}
	for _, k := range keys {
		if v, ok := e[k]; ok {
			x[k] = v
		}
	}
	return x
}

// replayCall re-executes one recorded pure call event (used by concurrent replay)
func replayCall(e Event, extra Event) {
	op, _ := e["op"].(string)
	switch op {
	case "ByEntropy":
		var ent []byte
		if nilp, _ := e["ent_nil"].(bool); !nilp {
			ent = make([]byte, int(num(e["ent_len"])))
			copy(ent, toBytes(intsOf(e["ent"])))
		}
		recByEntropy(ent, num(e["lang"]), extra)
	case "Check":
		recCheck(fromUnits(intsOf(e["in"])), num(e["lang"]), extra)
	case "ToSeed":
		recToSeed(fromUnits(intsOf(e["m"])), fromUnits(intsOf(e["p"])), false, extra)
	case "String":
		recString(bigOf(e["n"]), extra)
	case "NewMnemonic":
		recNewMnemonic(bigOf(e["n"]), num(e["lang"]), extra)
	}
}

// replayConcFile: the calls of a recorded concurrent unit, grouped by goroutine, run concurrently again
func replayConcFile(path string) {
	b, err := os.ReadFile(path)
	if err != nil {
		fatal(err)
	}
	var rp replayT
	if err := json.Unmarshal(b, &rp); err != nil {
		fatal(err)
	}
	concMode = true
	byG := map[int][]Event{}
	var alone []Event
	for _, e := range rp.Unit {
		if c, _ := e["conc"].(bool); !c {
			continue
		}
		if op, _ := e["op"].(string); op == "NewMnemonicCall" {
			continue
		}
		g := int(num(e["g"]))
		if g == 0 {
			alone = append(alone, e)
		} else {
			byG[g] = append(byG[g], e)
		}
	}
	start := make(chan struct{})
	var wg sync.WaitGroup
	for g, evs := range byG {
		wg.Add(1)
		go func(g int, evs []Event) {
			defer wg.Done()
			<-start
			for _, e := range evs {
				x := extraOf(e, "argid")
				x["g"], x["conc"] = g, true
				replayCall(e, x)
			}
		}(g, evs)
	}
	emit(Event{"op": "ConcStart", "goroutines": len(byG)})
	close(start)
	wg.Wait()
	emit(Event{"op": "ConcJoin"})
	for _, e := range alone {
		x := extraOf(e, "argid")
		x["g"], x["conc"] = 0, true
		replayCall(e, x)
	}
}

func replayFile(path string) {
	b, err := os.ReadFile(path)
	if err != nil {
		fatal(err)
	}
	var rp replayT
	if err := json.Unmarshal(b, &rp); err != nil {
		fatal(err)
	}
	u := rp.Unit
	for i := 0; i < len(u); i++ {
		e := u[i]
		op, _ := e["op"].(string)
		keep := extraOf(e, "group", "variant", "argid", "fam", "cls", "k", "gen")
		switch op {
		case "ByEntropy":
			var ent []byte
			if nilp, _ := e["ent_nil"].(bool); !nilp {
				n := int(num(e["ent_len"]))
				ent = make([]byte, n)
				copy(ent, toBytes(intsOf(e["ent"])))
			}
			recByEntropy(ent, num(e["lang"]), keep)
		case "Check":
			recCheck(fromUnits(intsOf(e["in"])), num(e["lang"]), keep)
			if _, ok := e["echo_same"]; ok { // recorded as a repetition of an earlier call: repeated here, too
				for t := 0; t < 8; t++ {
					k2 := Event{"echo_of": lastCheckNow}
					for k, v := range keep {
						k2[k] = v
					}
					recCheck(fromUnits(intsOf(e["in"])), num(e["lang"]), k2)
				}
			}
		case "ToSeed":
			al, _ := e["alias_checked"].(bool)
			stop, times := func() {}, 1
			if c, _ := e["cls"].(string); c == "bigtext" { // recorded under a busy collector: re-executed under one, several times
				s1, s2, s3 := gcStorm(), gcStorm(), gcStorm()
				stop, times = func() { s1(); s2(); s3() }, 12
			}
			for t := 0; t < times; t++ {
				recToSeed(fromUnits(intsOf(e["m"])), fromUnits(intsOf(e["p"])), al, keep)
			}
			stop()
		case "String":
			recString(bigOf(e["n"]), keep)
		case "Swap":
			kind, _ := e["new"].(string)
			if kind == "os" {
				swapSource(osRandReader(), "os")
			} else if kind == "seekable" { // not replayed byte by byte: a fresh source of the same type
				injected = nil
				swapSource(&seekSource{scriptReader: &scriptReader{fill: newRng(1, "replay")}}, kind)
			} else {
				// the reader is rebuilt at the next NewMnemonicCall from the recorded Read events
				injected = &fixedReader{fill: newRng(1, "replay")}
				swapSource(injected, kind)
			}
		case "NewMnemonicCall":
			var steps []Event
			j := i + 1
			for ; j < len(u); j++ {
				if o, _ := u[j]["op"].(string); o == "Read" {
					steps = append(steps, u[j])
				} else {
					break
				}
			}
			// reads that were logged only after the call had returned (the library had given up waiting for a slow
			// source and the read completed later) belong to this call's script as well
			for k := j; k < len(u); k++ {
				if o, _ := u[k]["op"].(string); o == "NewMnemonic" || o == "NewMnemonicAborted" {
					for k++; k < len(u); k++ {
						if o2, _ := u[k]["op"].(string); o2 != "Read" {
							break
						}
						steps = append(steps, u[k])
					}
					break
				} else if o != "Read" {
					break
				}
			}
			if src, ok := currentSourceIsInjected(); ok {
				src.steps, src.pos = steps, 0
				src.delay = time.Duration(num(e["src_delay_ms"])) * time.Millisecond
			}
			recNewMnemonic(bigOf(e["n"]), num(e["lang"]), keep)
			for j < len(u) { // skip the recorded return
				if o, _ := u[j]["op"].(string); o == "NewMnemonic" || o == "NewMnemonicAborted" {
					break
				}
				j++
			}
			i = j
		case "Sweep":
			recSweep(intsOf(e["prefix"]), int(num(e["lang"])))
		case "Probe":
			if v := num(e["variant"]); v == 0 {
				if i == 0 || !(u[i-1]["op"] == "Probe" && num(u[i-1]["lang"]) == num(e["lang"])) { // once per language
					probeNewMethods(num(e["lang"]))
				}
			}
		case "MapLens":
			mapLens()
		case "Cut":
			if a := num(e["age_ms"]); a > 1000 {
				ageAtLeast(time.Duration(a) * time.Millisecond)
			}
			if i > 0 { // unit boundaries are kept (a long re-execution is validated in shards, too)
				src, _ := e["source"].(string)
				emit(Event{"op": "Cut", "source": src})
				lastCut = nEvents
			}
			if kind, _ := e["source"].(string); kind == "seekable" {
				if curSource != "seekable" {
					swapSource(&seekSource{scriptReader: &scriptReader{fill: newRng(1, "replay")}}, kind)
				}
			} else if kind != "" && kind != "os" && injected == nil {
				injected = &fixedReader{fill: newRng(1, "replay")}
				swapSource(injected, kind)
			}
		case "Reset", "Read", "NewMnemonic", "NewMnemonicAborted", "Recheck", "Buf", "SourceTotal":
			// nothing to re-execute
		default:
			replayExtra(op, e)
		}
	}
	recheckSeeds()
}

var injected *fixedReader

func currentSourceIsInjected() (*fixedReader, bool) { return injected, injected != nil }

// ---- programs -------------------------------------------------------------
// A program is a list of steps produced by the driver from TLC-generated
// behaviours (edge covers of MC_Reader's state graph, simulated call sequences
// of MC_History, ...).  Steps name abstract argument classes; concretisation is
// deterministic in (seed, class description), so the same abstract argument is
// the same concrete argument in every history.

type pstep struct {
	DelayMs int     `json:"delay_ms,omitempty"` // new: the scripted source takes this long to answer each Read
	GC      bool    `json:"gc,omitempty"`       // new: collections and finalizers run between the pieces the source delivers
	Op      string  `json:"op"`
	Kind    string  `json:"kind,omitempty"`
	N       int64   `json:"n,omitempty"`
	Lang    int64   `json:"lang,omitempty"`
	Script  []rstep `json:"script,omitempty"`
	After   string  `json:"after,omitempty"`
	Cls     string  `json:"cls,omitempty"`
	Size    int     `json:"size,omitempty"`
	Var     int     `json:"var,omitempty"`
	Fill    int     `json:"fill,omitempty"`
	Src     *int64  `json:"src,omitempty"` // language whose list the sentence is built from (default: Lang)
}

type program struct {
	Steps []pstep `json:"steps"`
}

func runProgramFile(path string, seed int64) {
	b, err := os.ReadFile(path)
	if err != nil {
		fatal(err)
	}
	var p program
	if err := json.Unmarshal(b, &p); err != nil {
		fatal(err)
	}
	runProgram(p, seed)
}

var progSrc *scriptReader
var observeMaps bool

func runProgram(p program, seed int64) {
	for i, st := range p.Steps {
		switch st.Op {
		case "cut":
			maybeCutNow()
		case "age": // idle until the process is at least this old
			ageAtLeast(time.Duration(st.DelayMs) * time.Millisecond)
		case "swap":
			if st.Kind == "os" {
				progSrc = nil
				swapSource(osRandReader(), "os")
			} else {
				progSrc = &scriptReader{fill: newRng(seed, "prog/bytes"), after: "data"}
				swapSource(wrapSource(progSrc, st.Kind), st.Kind)
			}
		case "new":
			if progSrc != nil {
				progSrc.script, progSrc.pos, progSrc.after = st.Script, 0, st.After
				if progSrc.after == "" {
					progSrc.after = "data"
				}
				progSrc.delay = time.Duration(st.DelayMs) * time.Millisecond
				srcDelayMs = st.DelayMs
				progSrc.gc, progSrc.gave = st.GC, 0
				if st.Fill >= 100 {
					// a repeated stream: every call with this fill number is handed exactly the same bytes (a test
					// fixture, a deterministic generator restarted from its seed, a recorded stream played again)
					progSrc.fill = newRng(seed, "prog/bytes/"+strconv.Itoa(st.Fill))
				} else {
					progSrc.fill = newRng(seed, "prog/bytes/"+strconv.Itoa(st.Fill)+"/"+strconv.Itoa(i))
				}
			}
			recNewMnemonic(st.N, st.Lang, Event{"argid": "new/" + strconv.FormatInt(st.N, 10) + "/" + strconv.FormatInt(st.Lang, 10)})
			if observeMaps {
				mapLens()
			}
		case "observe":
			observeMaps = true
		case "maplens":
			mapLens()
		case "recheck":
			recheckSeeds()
		default:
			runAbstractStep(st, seed)
		}
	}
}

func maybeCutNow() {
	emit(Event{"op": "Cut", "source": curSource})
	lastCut = nEvents
}
