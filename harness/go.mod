module verif/harness

go 1.21

require (
	github.com/islishude/bip39 v0.0.0
	golang.org/x/text v0.14.0
)

require golang.org/x/crypto v0.17.0 // indirect

replace github.com/islishude/bip39 => /repo
