package main

import (
	"bufio"
	"bytes"
	"encoding"
	"encoding/json"
	"errors"
	"fmt"
	"io"
	"os"
	"strconv"
	"strings"
	"sync/atomic"
	"syscall"
	"time"
	"unsafe"

	"github.com/islishude/bip39"
)

func merge(e Event, extra Event) Event {
	for k, v := range extra {
		e[k] = v
	}
	return e
}

var byEntropyN int
var entropyArena = make([]byte, 64+24)

// recByEntropy calls NewMnemonicByEntropy and records the call.
func recByEntropy(ent []byte, lang int64, extra Event) (out string, err error) {
	lang = narrow(lang)
	// The argument is handed over as callers often hold it: a prefix of a larger buffer (spare capacity
	// behind it).  "ent_same" covers the whole backing array, not only the first len bytes.
	var backing, arg []byte
	if !concMode {
		byEntropyN++
	}
	if ent != nil && len(ent) <= 64 && byEntropyN%2 == 0 && !concMode {
		// every other call hands over the SAME caller-owned buffer, refilled in place (a key-generation loop that
		// reuses one buffer): a library that remembers the slice instead of its contents sees its memory change
		backing = entropyArena[:len(ent)+24]
		copy(backing, ent)
		for i := len(ent); i < len(backing); i++ {
			backing[i] = byte(0xA5 ^ i)
		}
		arg = backing[:len(ent)]
	} else if ent != nil {
		backing = make([]byte, len(ent)+24)
		copy(backing, ent)
		for i := len(ent); i < len(backing); i++ {
			backing[i] = byte(0xA5 ^ i)
		}
		arg = backing[:len(ent)]
		if len(ent)%8 == 4 { // some calls with an exact-capacity slice
			arg = backing[:len(ent):len(ent)]
		}
	}
	before := append([]byte(nil), backing...)
	o := guarded(func() { out, err = bip39.NewMnemonicByEntropy(arg, bip39.Language(lang)) })
	e := Event{"op": "ByEntropy", "ent_len": len(ent), "ent_nil": ent == nil, "lang": langField(lang),
		"out": units(out), "err": errRec(err), "ent_same": bytes.Equal(before, backing), "spare": cap(arg) - len(arg)}
	if len(ent) <= 64 {
		e["ent"] = ints(before[:len(ent)])
	} else {
		e["ent"] = []int{}
	}
	emit(merge(o.into(e), extra))
	keepString(out)
	if ent != nil && len(ent) <= 64 {
		cp := append([]byte(nil), before[:len(ent)]...)
		scheduleEcho(func() { recByEntropy(cp, lang, Event{"fam": "echo"}) })
	}
	return
}

var lastCheckNow string

// recCheck calls CheckMnemonic and IsMnemonicValid on the same input.
func recCheck(in string, lang int64, extra Event) (err error) {
	lang = narrow(lang)
	var valid bool
	in = strings.Clone(in) // a heap copy the library could (wrongly) write through; compared after the call
	before := []byte(in)
	o := guarded(func() {
		err = bip39.CheckMnemonic(in, bip39.Language(lang))
		valid = bip39.IsMnemonicValid(in, bip39.Language(lang))
	})
	e := Event{"op": "Check", "in": units(string(before)), "lang": langField(lang), "err": errRec(err), "valid": valid, "in_same": in == string(before)}
	now := strconv.FormatBool(valid) + "/"
	if err != nil {
		now += err.Error()
	}
	if !concMode {
		lastCheckNow = now
	}
	if was, ok := extra["echo_of"]; ok { // the same call made again later: did it say the same thing?
		e["echo_same"] = was == now
		delete(extra, "echo_of")
	}
	emit(merge(o.into(e), extra))
	keepErr(err)
	if len(before) < 2000 {
		cp := string(before)
		ex := Event{"cls": "echo", "echo_of": now}
		if g, ok := extra["gen"]; ok {
			ex["gen"] = g
		}
		scheduleEcho(func() { recCheck(cp, lang, ex) })
	}
	return
}

// recCheckLen: like recCheck for huge inputs - the input is described, not logged.
func recCheckHuge(in string, desc string, lang int64) {
	lang = narrow(lang)
	var err error
	var valid bool
	o := guarded(func() {
		err = bip39.CheckMnemonic(in, bip39.Language(lang))
		valid = bip39.IsMnemonicValid(in, bip39.Language(lang))
	})
	emit(o.into(Event{"op": "CheckHuge", "desc": desc, "in_len": len(in), "lang": langField(lang), "err": errRec(err), "valid": valid}))
}

// Strings returned by the library are kept together with a copy of their bytes taken at return time and are
// compared again later (Recheck events): a returned sentence must not change under later calls (C13).
var keptStrs []string
var keptStrCopies [][]byte
var keptStrLines []int

func keepString(s string) {
	if concMode || len(s) == 0 {
		return
	}
	if len(keptStrs) >= 512 { // keep a sliding window of the most recent results
		recheckStrings()
	}
	keptStrs, keptStrCopies, keptStrLines = append(keptStrs, s), append(keptStrCopies, []byte(s)), append(keptStrLines, nEvents)
}

func recheckStrings() {
	if len(keptStrs) > 0 {
		settle()
	}
	bad := 0
	for i := range keptStrs {
		same := keptStrs[i] == string(keptStrCopies[i])
		if !same || i == len(keptStrs)-1 { // one summary event per window, one event per changed string
			if !same {
				bad++
			}
			emit(Event{"op": "Recheck", "kind": "string", "ref": keptStrLines[i], "same": same, "window": len(keptStrs)})
		}
	}
	keptStrs, keptStrCopies, keptStrLines = nil, nil, nil
}

// Error values returned by the library are kept with the text they had at return time (an error whose
// message is rendered lazily from recycled storage changes its text later).
var keptErrs []error
var keptErrTexts []string
var keptErrLines []int

func keepErr(err error) {
	if concMode || err == nil {
		return
	}
	if len(keptErrs) >= 256 {
		recheckErrs()
	}
	keptErrs, keptErrTexts, keptErrLines = append(keptErrs, err), append(keptErrTexts, err.Error()), append(keptErrLines, nEvents)
}

func recheckErrs() {
	for i := range keptErrs {
		same := keptErrs[i].Error() == keptErrTexts[i]
		if !same || i == len(keptErrs)-1 {
			emit(Event{"op": "Recheck", "kind": "error", "ref": keptErrLines[i], "same": same, "window": len(keptErrs),
				"now": units(keptErrs[i].Error()), "was": units(keptErrTexts[i])})
		}
	}
	keptErrs, keptErrTexts, keptErrLines = nil, nil, nil
}

var keptSeeds [][]byte // returned slices kept for Recheck events
var keptCopies [][]byte
var keptLines []int

// recToSeed calls MnemonicToSeed. With alias=true it derives twice and
// scribbles over the first result to observe sharing of backing storage.
func recToSeed(m, p string, alias bool, extra Event) (seed []byte) {
	var s1, s2 []byte
	m, p = strings.Clone(m), strings.Clone(p)
	mb, pb := []byte(m), []byte(p)
	o := guarded(func() {
		s1 = bip39.MnemonicToSeed(m, p)
		if alias {
			s2 = bip39.MnemonicToSeed(m, p)
		}
	})
	if alias {
		settle() // collections and finalizers run while the caller holds the seed: it is still the seed afterwards
	}
	e := Event{"op": "ToSeed", "m": units(string(mb)), "p": units(string(pb)), "seed": ints(s1), "len": len(s1), "cap": cap(s1), "aliased": false, "alias_checked": alias,
		"in_same": m == string(mb) && p == string(pb)}
	seed = append([]byte(nil), s1...)
	if alias && len(s1) > 0 && len(s2) > 0 {
		same := unsafe.SliceData(s1) == unsafe.SliceData(s2)
		c2 := append([]byte(nil), s2...)
		for i := range s1 {
			s1[i] ^= 0xAA
		}
		changed := !bytes.Equal(c2, s2)
		for i := range s1 {
			s1[i] ^= 0xAA
		}
		e["aliased"] = same || changed
		e["seed2"] = ints(c2)
		// the caller wipes the seed it was given (ordinary key hygiene) and derives again: same arguments, same seed
		for i := range s1 {
			s1[i] = 0
		}
		var s3 []byte
		o3 := guarded(func() { s3 = bip39.MnemonicToSeed(m, p) })
		e["seed3"] = ints(s3)
		if o3.panicked || o3.timeout {
			o = o3
		}
		copy(s1, seed)
	}
	emit(merge(o.into(e), extra))
	if !concMode && len(keptSeeds) < 64 && len(s1) > 0 {
		keptSeeds, keptCopies, keptLines = append(keptSeeds, s1), append(keptCopies, seed), append(keptLines, nEvents)
	}
	return
}

func recToSeedHuge(m, p string, desc string) {
	var s1 []byte
	o := guarded(func() { s1 = bip39.MnemonicToSeed(m, p) })
	emit(o.into(Event{"op": "ToSeedHuge", "desc": desc, "m_len": len(m), "p_len": len(p), "len": len(s1)}))
}

// recheckSeeds: every seed returned earlier still has the value it had at return.
func recheckSeeds() {
	if len(keptSeeds) > 0 {
		settle()
	}
	recheckStrings()
	recheckErrs()
	for i := range keptSeeds {
		emit(Event{"op": "Recheck", "kind": "seed", "ref": keptLines[i], "same": bytes.Equal(keptSeeds[i], keptCopies[i])})
	}
	keptSeeds, keptCopies, keptLines = nil, nil, nil
}

func recString(n int64, extra Event) (s string) {
	n = narrow(n)
	o := guarded(func() { s = bip39.Language(n).String() })
	emit(merge(o.into(Event{"op": "String", "n": bigRec(n), "out": units(s)}), extra))
	keepString(s)
	if !concMode && (n >= -3 && n <= 13 || n%4099 == 0) {
		probeLanguageValue(n, extra)
	}
	return
}

// probeLanguageValue uses a Language value the way values travel through programs: printed by fmt, and - should the
// type offer them - through encoding.TextMarshaler / json.Marshaler / fmt.GoStringer, with the result used as callers
// use such results (appended to).  What fmt prints for %v and %s is the name and is logged as such; the names are
// asked for again by the calls that follow.
func probeLanguageValue(n int64, extra Event) {
	v := bip39.Language(n)
	var viaV, viaS string
	o := guarded(func() {
		viaV, viaS = fmt.Sprintf("%v", v), fmt.Sprintf("%s", v)
		if tm, ok := interface{}(v).(encoding.TextMarshaler); ok {
			if b, err := tm.MarshalText(); err == nil {
				b = append(b, ": "...)
				_ = append(b[:len(b)-2], '\n')
			}
		}
		if jm, ok := interface{}(v).(json.Marshaler); ok {
			if b, err := jm.MarshalJSON(); err == nil {
				_ = append(b, ',')
			}
		}
		if gs, ok := interface{}(v).(fmt.GoStringer); ok {
			_ = gs.GoString()
		}
		_, _ = json.Marshal(v)
	})
	emit(merge(o.into(Event{"op": "String", "n": bigRec(n), "out": units(viaV), "via": "fmt%v"}), extra))
	emit(merge(Event{"op": "String", "n": bigRec(n), "out": units(viaS), "via": "fmt%s", "panicked": false, "timeout": false}, extra))
}

// ---- randomness sources -------------------------------------------------

// step of a scripted reader: deliver k bytes (at most what is asked) and an error kind
type rstep struct {
	K   int    `json:"k"`
	Err string `json:"err"` // "", "EOF", "UEOF", "custom"
}

type customErr struct{}

func (customErr) Error() string { return "verif: injected source failure" }

// tempErr: a failure that calls itself temporary (what EINTR, EAGAIN and network timeouts look like)
type tempErr struct{}

func (tempErr) Error() string   { return "verif: injected temporary failure" }
func (tempErr) Temporary() bool { return true }
func (tempErr) Timeout() bool   { return true }

// listErr is an error whose dynamic type cannot be hashed or compared (like go/scanner.ErrorList or a validator's
// error slice): a library that uses error values as map keys or compares them with == must still just return it
type listErr []string

func (l listErr) Error() string { return "verif: injected list of errors: " + strings.Join(l, "; ") }

func errOfKind(kind string) error {
	switch kind {
	case "listerr":
		return listErr{"first", "second"}
	case "":
		return nil
	case "EOF":
		return io.EOF
	case "UEOF":
		return io.ErrUnexpectedEOF
	case "EINTR":
		return syscall.EINTR
	case "EAGAIN":
		return syscall.EAGAIN
	case "temporary":
		return tempErr{}
	case "wrappedEOF":
		return fmt.Errorf("verif: wrapped: %w", io.EOF)
	case "noprogress":
		return io.ErrNoProgress
	case "shortbuffer":
		return io.ErrShortBuffer
	case "closedpipe":
		return io.ErrClosedPipe
	case "deadline":
		return os.ErrDeadlineExceeded
	}
	return customErr{}
}

// errID names which of the injectable error values err is (observation for the drift-level detail
// "which error does a failed read surface as")
func errID(err error) string {
	if err == nil {
		return ""
	}
	if _, ok := err.(listErr); ok { // (not comparable: must be recognised by type)
		return "listerr"
	}
	for _, k := range []string{"EOF", "UEOF", "EINTR", "EAGAIN", "temporary", "noprogress", "shortbuffer", "closedpipe", "deadline", "custom"} {
		if err == errOfKind(k) {
			return k
		}
	}
	if errors.Is(err, io.EOF) {
		return "wrappedEOF"
	}
	if errors.Is(err, bip39.ErrWordLen) {
		return "wordlen"
	}
	return "other"
}

// scriptReader follows a script; every Read is recorded as a Read event.
type scriptReader struct {
	script  []rstep
	pos     int
	fill    *rng
	after   string // behaviour when the script is exhausted: "EOF" or "data"
	total   int
	quiet   bool
	pattern string        // "" = seeded random bytes; otherwise a fixed shape of output
	chunk   int           // > 0: a working source that never hands out more than this many bytes per Read
	delay   time.Duration // > 0: a working source that is slow to answer (every Read takes this long)
	gc      bool          // collections (and finalizers) run between the pieces of a delivery
	gave    int           // bytes handed out since the script was (re)started, i.e. to the current call
}

func (s *scriptReader) produce(k int) []byte {
	b := s.fill.bytes(k)
	switch s.pattern {
	case "zero":
		for i := range b {
			b[i] = 0
		}
	case "ones":
		for i := range b {
			b[i] = 0xFF
		}
	case "lead0":
		if s.total == 0 && k > 0 {
			b[0] = 0
		}
	case "lead0ff":
		for i := range b {
			b[i] = 0xFF
		}
		if s.total == 0 && k > 0 {
			b[0] = 0
		}
	case "onebit":
		for i := range b {
			b[i] = 0
		}
		if s.total == 0 && k > 0 {
			b[0] = 0x80
		}
	}
	return b
}

func (s *scriptReader) Read(p []byte) (int, error) {
	st := rstep{K: len(p)}
	if s.pos < len(s.script) {
		st = s.script[s.pos]
		s.pos++
	} else if s.after != "" && s.after != "data" {
		st = rstep{0, s.after} // the source keeps failing with this kind of error
	}
	k := st.K
	if k > len(p) {
		k = len(p)
	}
	if s.chunk > 0 && k > s.chunk {
		k = s.chunk
	}
	delay := s.delay
	if delay > 0 {
		time.Sleep(delay)
	}
	if s.gc && s.gave > 0 { // only once this call holds bytes: a finalizer runs once, and it should find something to wipe
		settle()
	}
	if st.Err == "panic" { // a source with a defect of its own: it panics instead of returning
		if !s.quiet {
			emit(Event{"op": "Read", "asked": len(p), "gave": 0, "bytes": []int{}, "errkind": "panic"})
		}
		panic("verif: injected panic inside the source's Read")
	}
	b := s.produce(k)
	copy(p, b)
	s.total += k
	s.gave += k
	err := errOfKind(st.Err)
	if err != nil && k == 0 {
		if atomic.AddInt32(&failedReadsInCall, 1) > spinLimit {
			select {
			case spinCh <- struct{}{}:
			default:
			}
			select {} // park: the call is spinning on a source that has ended (see guarded)
		}
	} else {
		atomic.StoreInt32(&failedReadsInCall, 0)
	}
	if !s.quiet {
		e := Event{"op": "Read", "asked": len(p), "gave": k, "bytes": ints(b), "errkind": st.Err}
		if s.gc {
			e["gc"] = true // (a re-execution of this unit lets the collector run at the same place)
		}
		if delay > 0 {
			e["delay_ms"] = int(delay / time.Millisecond)
		}
		emit(e)
	}
	return k, err
}

// byteScriptReader: the same scripted source, additionally an io.ByteReader (a library that type-switches on
// its source must still take exactly the bytes the source delivers)
type byteScriptReader struct{ *scriptReader }

func (b byteScriptReader) ReadByte() (byte, error) {
	var one [1]byte
	n, err := b.scriptReader.Read(one[:])
	if n == 1 {
		return one[0], nil
	}
	if err == nil {
		err = io.ErrNoProgress
	}
	return 0, err
}

// seekSource wraps a scripted source in a type that ALSO offers io.ReaderAt, io.Seeker and io.WriterTo over the
// bytes it has handed out and will hand out (a *bytes.Reader, a *strings.Reader, an *os.File on a regular file
// are such readers).  Only Read consumes the stream and only Read is a delivery (logged); a library that probes
// for the other interfaces and takes bytes through them is taking bytes the source did not deliver to the call.
type seekSource struct {
	*scriptReader
	block []byte // the stream: what Read hands out, in order
	cur   int
}

func (s *seekSource) ensure(n int) {
	for len(s.block) < n {
		s.block = append(s.block, s.scriptReader.fill.bytes(256)...)
	}
}

func (s *seekSource) Read(p []byte) (int, error) {
	s.ensure(s.cur + len(p))
	n := copy(p, s.block[s.cur:s.cur+len(p)])
	s.cur += n
	emit(Event{"op": "Read", "asked": len(p), "gave": n, "bytes": ints(p[:n]), "errkind": ""})
	return n, nil
}

func (s *seekSource) ReadAt(p []byte, off int64) (int, error) {
	s.ensure(int(off) + len(p))
	return copy(p, s.block[off:]), nil
}

func (s *seekSource) Seek(off int64, whence int) (int64, error) {
	switch whence {
	case io.SeekStart:
		s.cur = int(off)
	case io.SeekCurrent:
		s.cur += int(off)
	case io.SeekEnd:
		s.ensure(4096)
		s.cur = len(s.block) + int(off)
	}
	if s.cur < 0 {
		s.cur = 0
	}
	return int64(s.cur), nil
}

func (s *seekSource) Len() int { s.ensure(s.cur + 4096); return len(s.block) - s.cur }

// wrapSource: the scripted source as the library sees it - plain, as io.ByteReader, or behind a *bufio.Reader
// of minimal size (16 bytes: bufio reads ahead, the Read events then show what bufio asked for)
func wrapSource(s *scriptReader, how string) io.Reader {
	switch how {
	case "bytereader":
		return byteScriptReader{s}
	case "bufio":
		return bufio.NewReaderSize(s, 16)
	case "seekable":
		return &seekSource{scriptReader: s}
	}
	return s
}

// recNewMnemonic: Call event, the call (Read events come from the source), Return event.
// srcDelayMs: how long the installed scripted source takes to answer each Read during the current call (0: at once)
var srcDelayMs int

func recNewMnemonic(n int64, lang int64, extra Event) (out string, err error) {
	n, lang = narrow(n), narrow(lang)
	call := Event{"op": "NewMnemonicCall", "n": bigRec(n), "lang": langField(lang)}
	if srcDelayMs > 0 {
		call["src_delay_ms"] = srcDelayMs // (a re-execution gives the call an equally slow source)
	}
	emit(merge(call, extra))
	atomic.StoreInt32(&failedReadsInCall, 0)
	o := guarded(func() { out, err = bip39.NewMnemonic(int(n), bip39.Language(lang)) })
	if o.panicked && strings.Contains(o.panicTxt, "verif: injected panic") {
		// the SOURCE panicked (a defect of the caller's reader, not of the library) and the caller recovered, as a
		// request handler does: nothing is claimed about this call - but the calls that follow must work
		emit(merge(Event{"op": "NewMnemonicAborted", "n": bigRec(n), "lang": langField(lang)}, extra))
		return
	}
	e := Event{"op": "NewMnemonic", "n": bigRec(n), "lang": langField(lang), "out": units(out), "err": errRec(err), "errid": errID(err)}
	emit(merge(o.into(e), extra))
	keepString(out)
	return
}

// swapSource installs r and records whether the previous source was crypto/rand.Reader itself.
func swapSource(r io.Reader, kind string) io.Reader {
	prev := bip39.VerifSwapSource(r)
	curSource = kind
	emit(Event{"op": "Swap", "prev_is_os": prev == osRandReader(), "new": kind})
	return prev
}

func mapLens() {
	l := bip39.VerifMapLens()
	emit(Event{"op": "MapLens", "lens": l[:]})
}
