---- MODULE BIP39Proc ----
(***************************************************************************)
(* Layer S: the package as a state machine, one action per observable step *)
(* of a sequential client.  (The concurrent refinement of the lazily built *)
(* maps - sync.Once with the Go memory model - is Once.tla.)               *)
(*                                                                         *)
(* State that outlives a call:                                             *)
(*   mapv[l]  "nil" | "full" - the lazily built word->index map of         *)
(*            language l (lang.go: *Mapping behind *Once)                  *)
(*   source   "os" | "script" | "counting" | ... - which reader the        *)
(*            package-level variable cryptoRander holds                    *)
(* State of a NewMnemonic call in flight (io.ReadFull's loop is visible to *)
(* the source, so it is modelled as steps):                                *)
(*   pc        "idle" | "reading" | "rejected"                             *)
(*   need      bytes NewMnemonic asked io.ReadFull for (4n/3)              *)
(*   delivered bytes the source has delivered so far in this call          *)
(*   lastErr   error kind returned by the most recent Read ("" = nil)      *)
(*   curLang   language argument of the call in flight                     *)
(*                                                                         *)
(* Each action A is split into Guard_A (enabling condition) and the update *)
(* so that Trace.tla can tell "the code took a step the specification does *)
(* not allow here" from "the step's result is wrong".                      *)
(***************************************************************************)
EXTENDS BIP39Impl

VARIABLES mapv, source, pc, need, delivered, lastErr, curLang
procVars == <<mapv, source, pc, need, delivered, lastErr, curLang>>

ProcInit ==
    /\ mapv = [l \in Langs |-> "nil"]
    /\ source = "os"
    /\ pc = "idle" /\ need = 0 /\ delivered = <<>> /\ lastErr = "" /\ curLang = 0

callVars == <<pc, need, delivered, lastErr, curLang>>

------------------------------------------------------------------------------
\* Actions
Idle == pc = "idle"

\* NewMnemonicByEntropy, MnemonicToSeed, Language.String: no state is read or written
CallPure == Idle /\ UNCHANGED procVars

\* CheckMnemonic / IsMnemonicValid: builds the language's map on first use past the count gate
CallCheck(in, lang) ==
    /\ Idle
    /\ mapv' = IF BuildsMap(in, lang) THEN [mapv EXCEPT ![lang] = "full"] ELSE mapv
    /\ UNCHANGED <<source, callVars>>

SwapSource(new) == Idle /\ source' = new /\ UNCHANGED <<mapv, callVars>>

\* NewMnemonic(n, lang): the count gate comes before any read
CallNewMnemonic(nOK, n, lang) ==
    /\ Idle
    /\ pc' = IF nOK THEN "reading" ELSE "rejected"
    /\ need' = IF nOK THEN n + n \div 3 ELSE 0
    /\ delivered' = <<>> /\ lastErr' = "" /\ curLang' = lang
    /\ UNCHANGED <<mapv, source>>

\* one Read call of the source inside io.ReadFull: bytes and/or an error
Guard_ReadStep == pc = "reading" /\ Len(delivered) < need /\ lastErr = ""
ReadStep(bytes, errkind) ==
    /\ Guard_ReadStep
    /\ delivered' = delivered \o bytes
    /\ lastErr' = errkind
    /\ UNCHANGED <<mapv, source, pc, need, curLang>>

\* outcome of the call in flight, given what the source did
ReadFullOK == Len(delivered) >= need
ResNewMnemonic ==
    IF pc = "rejected" THEN [out |-> <<>>, err |-> "wordlen"]
    ELSE IF ReadFullOK THEN [out |-> ImplMnemonic(SubSeq(delivered, 1, need), curLang), err |-> "nil"]
    ELSE [out |-> <<>>, err |-> "source"]
Guard_Return == pc \in {"reading", "rejected"} /\ (pc = "reading" => (ReadFullOK \/ lastErr # ""))
ReturnNewMnemonic ==
    /\ pc \in {"reading", "rejected"}
    /\ pc' = "idle" /\ need' = 0 /\ delivered' = <<>> /\ lastErr' = ""
    /\ UNCHANGED <<mapv, source, curLang>>

\* a fresh process
Restart == /\ mapv' = [l \in Langs |-> "nil"] /\ source' = "os"
           /\ pc' = "idle" /\ need' = 0 /\ delivered' = <<>> /\ lastErr' = "" /\ curLang' = 0
====
