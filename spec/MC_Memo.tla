---- MODULE MC_Memo ----
(***************************************************************************)
(* Design-level model of "the outcome of a call is a function of its       *)
(* arguments" (C13, C05) for the one way a stateless codec stops being     *)
(* one: somebody adds a memo of the last call.  The caller owns a buffer,  *)
(* refills it in place between calls (a key-generation loop), may also     *)
(* pass a private copy, and may write to what a call returned (wiping a    *)
(* seed).                                                                  *)
(*                                                                         *)
(* MemoImpl:                                                               *)
(*   "none"      the code: nothing is remembered                           *)
(*   "copy"      a memo that stores copies of key and result and hands out *)
(*               a copy (correct)                                          *)
(*   "aliaskey"  the key is the caller's slice itself: after a refill in   *)
(*               place the key "equals" the new contents                   *)
(*   "aliasres"  a hit hands out the stored result itself: what the caller *)
(*               does to it changes what the next call returns             *)
(*   "zerokey"   a copying memo with no "empty" state: its zero value is a *)
(*               real key (Language(0), the smallest element of Vals) with *)
(*               the zero result (a nil map) - seeded change C13n: the     *)
(*               FIRST call of a process with that key is answered from    *)
(*               the zero value; any other first call repairs the memo.    *)
(*               This is why C13's programs must sometimes begin cold with *)
(*               each language and not always with the same opening.       *)
(* F is an injective stand-in for the encoding.                            *)
(***************************************************************************)
EXTENDS Integers, TLC
CONSTANTS Vals, MemoImpl
VARIABLES buf,        \* contents of the caller's buffer
          keyIsBuf,   \* the memo key is a reference to the caller's buffer
          keyVal,     \* the memo key when it is a copy (None when empty)
          resCell,    \* the stored result (a cell the memo owns, or shares with a caller)
          shared,     \* a caller holds a reference to resCell
          last        \* <<argument value, returned value>> of the last call
vars == <<buf, keyIsBuf, keyVal, resCell, shared, last>>
None == -1                  \* "nothing yet" (an integer: TLC does not compare strings with numbers)
F(v) == v + 100
ZeroKey == CHOOSE v \in Vals : \A w \in Vals : v <= w
Init == /\ buf \in Vals /\ keyIsBuf = FALSE /\ shared = FALSE /\ last = <<None, None>>
        /\ keyVal = IF MemoImpl = "zerokey" THEN ZeroKey ELSE None
        /\ resCell = IF MemoImpl = "zerokey" THEN 0 ELSE None

Refill(v) == buf' = v /\ UNCHANGED <<keyIsBuf, keyVal, resCell, shared, last>>      \* the caller overwrites its buffer in place
Wipe == shared /\ resCell' = 0 /\ UNCHANGED <<buf, keyIsBuf, keyVal, shared, last>>    \* the caller zeroes the result it was handed
\* a call with the caller's buffer (fresh = FALSE) or with a private copy of its contents (fresh = TRUE)
Call(fresh) ==
    LET arg == buf
        keyNow == IF keyIsBuf THEN buf ELSE keyVal          \* what the memo's key reads as at this moment
        hit == MemoImpl # "none" /\ (MemoImpl = "zerokey" \/ resCell # None) /\ keyNow = arg
        ret == IF hit THEN resCell ELSE F(arg)
    IN /\ last' = <<arg, ret>>
       /\ IF MemoImpl = "none" THEN UNCHANGED <<keyIsBuf, keyVal, resCell, shared>>
          ELSE /\ keyIsBuf' = IF hit THEN keyIsBuf ELSE (MemoImpl = "aliaskey" /\ ~fresh)
               /\ keyVal' = IF hit THEN keyVal ELSE arg
               /\ resCell' = IF hit THEN resCell ELSE F(arg)
               /\ shared' = (MemoImpl = "aliasres")          \* the caller now holds the stored result itself
       /\ UNCHANGED buf
Next == (\E v \in Vals : Refill(v)) \/ Wipe \/ Call(TRUE) \/ Call(FALSE)
Spec == Init /\ [][Next]_vars

\* C13 / C05: what a call returns is the encoding of what it was given
FunctionOfArguments == last[1] # None => last[2] = F(last[1])
====
