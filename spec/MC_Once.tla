---- MODULE MC_Once ----
(***************************************************************************)
(* The concurrent refinement of Layer S's lazily built maps (C12):         *)
(* lang.go guards the construction of each language's word->index map with *)
(* its own sync.Once; CheckMnemonic then reads the map without a lock.     *)
(* The model has G goroutines making Calls validations each on languages   *)
(* of L, and the steps of sync.Once.Do as the Go runtime implements it     *)
(* (atomic load of done - fast path; mutex; second test; f(); atomic store *)
(* of done; unlock), one action per step, so TLC explores every            *)
(* interleaving.                                                           *)
(*                                                                         *)
(* A data race is defined as the Go memory model defines it, not as        *)
(* "overlap": every goroutine carries a vector clock vc[g]; the atomic     *)
(* done flag and the mutex carry release clocks (relDone, relMu) that an   *)
(* acquiring load/lock joins into the acquirer's clock; each map variable  *)
(* remembers its last write and the reads since.  An access that is not    *)
(* happens-before-ordered after a conflicting access sets `race`.          *)
(*                                                                         *)
(* OnceImpl = "once" is the code.  "nilcheck" is the negative control (and *)
(* the classic realistic mutation): `if m == nil { build }` without any    *)
(* synchronisation.                                                        *)
(***************************************************************************)
EXTENDS Integers, Sequences, FiniteSets, TLC
CONSTANTS G, L, Calls, OnceImpl   \* goroutines, languages, calls per goroutine, "once" | "nilcheck"
VARIABLES pc, lang, left, done, mu, mapv, vc, relDone, relMu, lastW, reads, race, res
vars == <<pc, lang, left, done, mu, mapv, vc, relDone, relMu, lastW, reads, race, res>>
Zero == [g \in G |-> 0]
Max(a,b) == IF a > b THEN a ELSE b
Join(v,w) == [g \in G |-> Max(v[g], w[g])]
Tick(g) == [vc[g] EXCEPT ![g] = @ + 1]
Init == /\ pc = [g \in G |-> "idle"] /\ lang \in [G -> L] /\ left = [g \in G |-> Calls]
        /\ done = [l \in L |-> 0] /\ mu = [l \in L |-> "free"] /\ mapv = [l \in L |-> "nil"]
        /\ vc = [g \in G |-> [h \in G |-> IF h = g THEN 1 ELSE 0]]
        /\ relDone = [l \in L |-> Zero] /\ relMu = [l \in L |-> Zero]
        /\ lastW = [l \in L |-> <<"none", 0>>] /\ reads = [l \in L |-> {}]
        /\ race = FALSE /\ res = [g \in G |-> <<>>]
\* happens-before test: access (h, epoch) is ordered before g's current point
HB(acc, g) == acc[1] = "none" \/ acc[1] = g \/ acc[2] <= vc[g][acc[1]]
ReadVar(g, l)  == /\ race' = (race \/ ~HB(lastW[l], g))
                  /\ reads' = [reads EXCEPT ![l] = @ \cup {<<g, vc[g][g]>>}] /\ UNCHANGED lastW
WriteVar(g, l) == /\ race' = (race \/ ~HB(lastW[l], g) \/ \E r \in reads[l] : ~HB(r, g))
                  /\ lastW' = [lastW EXCEPT ![l] = <<g, vc[g][g]>>] /\ reads' = [reads EXCEPT ![l] = {}]
NoAcc == UNCHANGED <<race, lastW, reads>>
Start(g) == /\ pc[g] = "idle" /\ left[g] > 0 /\ \E l \in L : lang' = [lang EXCEPT ![g] = l]
            /\ left' = [left EXCEPT ![g] = @ - 1]
            /\ pc' = [pc EXCEPT ![g] = IF OnceImpl = "once" THEN "fast" ELSE "nilchk"]
            /\ UNCHANGED <<done, mu, mapv, vc, relDone, relMu, res>> /\ NoAcc
\* ---- sync.Once ----
Fast(g) == /\ pc[g] = "fast" /\ LET l == lang[g] IN
              /\ vc' = [vc EXCEPT ![g] = IF done[l] = 1 THEN Join(@, relDone[l]) ELSE @]   \* atomic load acquires
              /\ pc' = [pc EXCEPT ![g] = IF done[l] = 1 THEN "read" ELSE "lock"]
           /\ UNCHANGED <<lang, left, done, mu, mapv, relDone, relMu, res>> /\ NoAcc
Lock(g) == /\ pc[g] = "lock" /\ mu[lang[g]] = "free"
           /\ mu' = [mu EXCEPT ![lang[g]] = g] /\ vc' = [vc EXCEPT ![g] = Join(@, relMu[lang[g]])]
           /\ pc' = [pc EXCEPT ![g] = "slow"]
           /\ UNCHANGED <<lang, left, done, mapv, relDone, relMu, res>> /\ NoAcc
Slow(g) == /\ pc[g] = "slow" /\ LET l == lang[g] IN
              /\ vc' = [vc EXCEPT ![g] = IF done[l] = 1 THEN Join(@, relDone[l]) ELSE @]
              /\ pc' = [pc EXCEPT ![g] = IF done[l] = 1 THEN "unlock" ELSE "alloc"]
           /\ UNCHANGED <<lang, left, done, mu, mapv, relDone, relMu, res>> /\ NoAcc
Alloc(g) == /\ pc[g] = "alloc" /\ mapv' = [mapv EXCEPT ![lang[g]] = "partial"] /\ WriteVar(g, lang[g])
            /\ pc' = [pc EXCEPT ![g] = "fill"] /\ UNCHANGED <<lang, left, done, mu, vc, relDone, relMu, res>>
Fill(g) == /\ pc[g] = "fill" /\ mapv' = [mapv EXCEPT ![lang[g]] = "full"] /\ WriteVar(g, lang[g])
           /\ pc' = [pc EXCEPT ![g] = IF OnceImpl = "once" THEN "store" ELSE "read"]
           /\ UNCHANGED <<lang, left, done, mu, vc, relDone, relMu, res>>
Store(g) == /\ pc[g] = "store" /\ done' = [done EXCEPT ![lang[g]] = 1]
            /\ relDone' = [relDone EXCEPT ![lang[g]] = vc[g]] /\ vc' = [vc EXCEPT ![g] = Tick(g)]
            /\ pc' = [pc EXCEPT ![g] = "unlock"] /\ UNCHANGED <<lang, left, mu, mapv, relMu, res>> /\ NoAcc
Unlock(g) == /\ pc[g] = "unlock" /\ mu' = [mu EXCEPT ![lang[g]] = "free"]
             /\ relMu' = [relMu EXCEPT ![lang[g]] = vc[g]] /\ vc' = [vc EXCEPT ![g] = Tick(g)]
             /\ pc' = [pc EXCEPT ![g] = "read"] /\ UNCHANGED <<lang, left, done, mapv, relDone, res>> /\ NoAcc
\* ---- nil-check variant ----
NilChk(g) == /\ pc[g] = "nilchk" /\ ReadVar(g, lang[g])
             /\ pc' = [pc EXCEPT ![g] = IF mapv[lang[g]] = "nil" THEN "alloc" ELSE "read"]
             /\ UNCHANGED <<lang, left, done, mu, mapv, vc, relDone, relMu, res>>
\* ---- lookup through the returned map ----
Read(g) == /\ pc[g] = "read" /\ ReadVar(g, lang[g])
           /\ res' = [res EXCEPT ![g] = Append(@, mapv[lang[g]])]
           /\ pc' = [pc EXCEPT ![g] = "idle"] /\ UNCHANGED <<lang, left, done, mu, mapv, vc, relDone, relMu>>
Next == \E g \in G : Start(g) \/ Fast(g) \/ Lock(g) \/ Slow(g) \/ Alloc(g) \/ Fill(g) \/ Store(g) \/ Unlock(g) \/ NilChk(g) \/ Read(g)
Spec == Init /\ [][Next]_vars
NoRace == ~race
LookupSeesFullMap == \A g \in G : \A i \in 1..Len(res[g]) : res[g][i] = "full"
\* refinement: the protocol implements "built once, atomically; lookups see a full map" (AtomicMaps.tla)
Abs == INSTANCE AtomicMaps WITH amap <- [l \in L |-> IF done[l] = 1 THEN "full" ELSE "nil"], ares <- res
ImplementsAtomicMaps == Abs!ASpec
\* every lookup went through a completely built map, i.e. returned what a sequential run returns
ResultsEqualSequential == LookupSeesFullMap
BuiltAtMostOnce == \A l \in L : Cardinality({g \in G : pc[g] \in {"alloc","fill","store"} /\ lang[g] = l}) <= 1
====
