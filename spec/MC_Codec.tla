---- MODULE MC_Codec ----
(***************************************************************************)
(* Design-level check of the codec: on structured families of entropies at *)
(* the REAL sizes, the implementation-shaped algorithms (Layer I, big      *)
(* integers) agree with the standard's wording (Layer D, bit strings):     *)
(*   EncodeAgrees   ImplEncode = Mnemonic                       (C01)      *)
(*   RoundTrip      Entropy(Mnemonic(e)) = e                    (C05)      *)
(*   GenValidates   ImplCheck accepts Mnemonic(e)               (C02)      *)
(*   AcceptSet      for a prefix, ImplCheck accepts exactly the (C02, C03) *)
(*                  2^(11-CS) predicted last words                         *)
(* With BytesMode = "minimal" (the pinned commit) GenValidates and         *)
(* AcceptSet must fail on entropies with a leading zero byte (finding F1). *)
(*                                                                         *)
(* The state graph is a tree root -> bucket -> case so that TLC's workers  *)
(* share the cases.                                                        *)
(***************************************************************************)
EXTENDS BIP39Impl

CONSTANTS Buckets,               \* number of buckets the cases are dealt into
          SweepSizes             \* entropy sizes for which the (expensive) accept-set check is run
VARIABLE node                    \* <<"root">> | <<"bucket", b>> | <<"case", k>> | <<"sweep", j, chunk>>

Quarter == << <<0,0,0,0>>, <<0,0,0,1>>, <<128,0,0,0>>, <<255,255,255,255>>, <<0,0,255,255>> >>
\* 16 bytes: every combination of quarter patterns (625); larger sizes: the first two and the last
\* quarter vary, the middle ones alternate FFFFFFFF / 00000001
Fam16 == { Quarter[a] \o Quarter[b] \o Quarter[c] \o Quarter[d] : a \in 1..5, b \in 1..5, c \in 1..5, d \in 1..5 }
Mid(k) == FlattenSeq([i \in 1..k |-> IF i % 2 = 1 THEN Quarter[4] ELSE Quarter[2]])
FamBig(size) == { Quarter[a] \o Quarter[b] \o Mid(size \div 4 - 3) \o Quarter[d] : a \in 1..5, b \in 1..5, d \in 1..5 }
\* every count of leading zero bytes, followed by small / large / mixed bytes
Lead(size) == { [i \in 1..size |-> IF i <= k THEN 0 ELSE IF v = 1 THEN 1 ELSE IF v = 2 THEN 255 ELSE (((i * 37) + k) % 255) + 1]
                : k \in 0..size, v \in 1..3 }
Sizes == {16, 20, 24, 28, 32}
Family == Fam16 \cup UNION { FamBig(s) : s \in Sizes \ {16} } \cup UNION { Lead(s) : s \in Sizes }
Cases == SetToSeq(Family)
NCases == Len(Cases)
LangOf(k) == <<2, 5, 0, 6, 3, 9>>[(k % 6) + 1]      \* English, Japanese, ChineseSimplified, Korean, French, Portuguese

\* accept-set cases: 0, 1 and 2 leading zero bytes at each chosen size; 16 chunks of 128 candidate last words each
SweepCases == SetToSeq({ [i \in 1..size |-> IF i <= k THEN 0 ELSE ((((i * 37) + k) % 255) + 1)] : k \in 0..2, size \in SweepSizes })
Init == node = <<"root">>
Next == \/ node = <<"root">> /\ \E b \in 1..Buckets : node' = <<"bucket", b>>
        \/ node[1] = "bucket" /\ \E k \in 1..NCases : k % Buckets = node[2] % Buckets /\ node' = <<"case", k>>
        \/ node[1] = "bucket" /\ \E j \in 1..Len(SweepCases) : node' = <<"sweep", j, node[2] % 16>>
Spec == Init /\ [][Next]_node

IsCase == node[1] = "case"
E == Cases[node[2]]
L == LangOf(node[2])

EncodeAgrees == IsCase => ImplEncode(E, L) = Mnemonic(E, L) /\ ImplIndices(E) = Indices(E)
RoundTrip    == IsCase => Entropy(Mnemonic(E, L), L) = E
GenValidates == IsCase => LET m == Mnemonic(E, L)  v == ImplCheck(m, L) IN
                    /\ v = "nil" /\ Canonical(m, L) /\ WellFormed(m, L) /\ ImplVerdict(m, L) = v
\* accept set for the prefix of a sweep case's mnemonic, one chunk of candidates per state
IsSweep == node[1] = "sweep"
SE == SweepCases[node[2]]
SL == LangOf(node[2])
Chunk == { t \in 0..2047 : t % 16 = node[3] }
Prefix == SubSeq(Indices(SE), 1, WordCount(SE) - 1)
Accepted == { t \in Chunk : ImplCheck(Sentence(Append(Prefix, t), SL), SL) = "nil" }
Predicted == LET cs == CS(SE)  tb == 11 - cs
                 pbits == FlattenSeq([i \in 1..Len(Prefix) |-> Bits11(Prefix[i])])
             IN { t * (2^cs) + BitsToNat(Checksum(BitsToBytes(pbits \o SubSeq(Bits11(t * (2^cs)), 1, tb)))) : t \in 0..(2^tb - 1) }
AcceptSet == IsSweep =>
                /\ Accepted = Predicted \cap Chunk /\ Cardinality(Predicted) = 2^(11 - CS(SE))
                /\ Indices(SE)[WordCount(SE)] \in Predicted
GatesAgree == \A k \in 0..200 : (ImplEntGate(k) <=> EntLenOK(k)) /\ (ImplCountGate(k - 100) <=> WordCountOK(k - 100))
====
