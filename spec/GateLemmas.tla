---- MODULE GateLemmas ----
(***************************************************************************)
(* C09, for EVERY integer (not a window): the three-clause size tests of   *)
(* bip39.go accept exactly the five BIP39 sizes, and the buffer size       *)
(* NewMnemonic allocates for an accepted word count is the matching        *)
(* entropy size.  Checked by the TLA+ proof system (tlapm, SMT backend);   *)
(* bin/check C09 thorough re-runs the proof.  MC_Gates checks the same     *)
(* statements over a window with TLC, against the operators the rest of    *)
(* the specification uses (ImplEntGate, ImplCountGate, EntLenOK,           *)
(* WordCountOK have exactly these bodies).                                 *)
(***************************************************************************)
EXTENDS Integers, TLAPS

EntLenOK(k)    == k \in {16, 20, 24, 28, 32}
WordCountOK(n) == n \in {12, 15, 18, 21, 24}
ImplEntGate(k)   == ~(k < 16 \/ k > 32 \/ k % 4 # 0)
ImplCountGate(n) == ~(n < 12 \/ n > 24 \/ n % 3 # 0)

THEOREM EntGate == \A k \in Int : ImplEntGate(k) <=> EntLenOK(k)
  BY DEF ImplEntGate, EntLenOK

THEOREM CountGate == \A n \in Int : ImplCountGate(n) <=> WordCountOK(n)
  BY DEF ImplCountGate, WordCountOK

THEOREM BufferSize == \A n \in Int : WordCountOK(n) => EntLenOK(n + n \div 3) /\ (n + n \div 3) * 3 = 4 * n
  BY DEF WordCountOK, EntLenOK

THEOREM WordsOfEntropy == \A k \in Int : EntLenOK(k) => WordCountOK((k \div 4) * 3) /\ 11 * ((k \div 4) * 3) = 8 * k + k \div 4
  BY DEF WordCountOK, EntLenOK
====
