---- MODULE UTF8 ----
(***************************************************************************)
(* Text is a sequence of *units*: a unit u >= 0 is a Unicode code point,   *)
(* a unit u < 0 stands for the raw byte (-1 - u) of an ill-formed UTF-8    *)
(* subsequence (how Go strings carry invalid bytes).  Encode maps units to *)
(* the bytes of the Go string.                                             *)
(***************************************************************************)
EXTENDS Integers, Sequences, SequencesExt
EncodeUnit(u) ==
    IF u < 0 THEN << -1 - u >>
    ELSE IF u < 128 THEN <<u>>
    ELSE IF u < 2048 THEN <<192 + (u \div 64), 128 + (u % 64)>>
    ELSE IF u < 65536 THEN <<224 + (u \div 4096), 128 + ((u \div 64) % 64), 128 + (u % 64)>>
    ELSE <<240 + (u \div 262144), 128 + ((u \div 4096) % 64), 128 + ((u \div 64) % 64), 128 + (u % 64)>>
EncodeDef(units) == FlattenSeq([i \in 1..Len(units) |-> EncodeUnit(units[i])])
\* ASCII text is its own encoding (evaluation shortcut for very long inputs: FlattenSeq recurses once per unit)
Encode(units) == IF \A i \in 1..Len(units) : units[i] \in 0..127 THEN units ELSE EncodeDef(units)
Ascii(str) == str   \* placeholder: ASCII strings are given as tuples of code points
====
