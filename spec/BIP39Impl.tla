---- MODULE BIP39Impl ----
(***************************************************************************)
(* Layer I: the algorithms of entropy.go and mnemonic.go as the Go code    *)
(* performs them - on a model of math/big - so that TLC can compare them   *)
(* with the standard's wording (Layer D) and so that the difference        *)
(* between the pinned code and the repaired code is a counterexample.      *)
(*                                                                         *)
(* Big naturals: BigNat.tla.                                               *)
(***************************************************************************)
EXTENDS BIP39Def

CONSTANT BytesMode      \* "minimal": hash entBig.Bytes() (pinned commit, finding F1)
                        \* "padded" : left-pad the recovered entropy to ENT/8 bytes (repaired)

------------------------------------------------------------------------------
\* What the code returns, including what the properties leave open (fallbacks, precedence)
English == 2
EffLang(l) == IF IsSupported(l) THEN l ELSE English          \* list(): English fallback
\* fromEntropy joins with U+3000 only when lg == Japanese
ImplMnemonic(e, l) == Sentence(Indices(e), EffLang(l))

ResByEntropy(len, ent, lang) ==
    IF EntLenOK(len) THEN [out |-> ImplMnemonic(ent, lang), err |-> "nil"]
                     ELSE [out |-> <<>>, err |-> "entlen"]

\* CheckMnemonic: NFKD, split on single U+0020, count gate, first unknown token, checksum
ImplVerdict(in, lang) ==
    LET toks == SplitOnSpace(NFKD(in))  n == Len(toks) IN
    IF ~WordCountOK(n) THEN "wordlen"
    ELSE IF ~IsSupported(lang) \/ ~AllKnown(toks, lang) THEN "word"
    ELSE IF ChecksumOK(toks, lang) THEN "nil" ELSE "checksum"
BuildsMap(in, lang) == IsSupported(lang) /\ WordCountOK(Len(SplitOnSpace(NFKD(in))))


------------------------------------------------------------------------------
\* math/big (BigNat.tla)
Big == INSTANCE BigNat
------------------------------------------------------------------------------
\* entropy.go: fromEntropy
RECURSIVE Peel(_,_,_)
Peel(ent, i, acc) == IF i = 0 THEN acc
                     ELSE Peel(Big!Rsh(ent, 11), i - 1, <<Big!Small(Big!LowBits(ent, 11))>> \o acc)
ImplIndices(e) ==
    LET cs    == Len(e) \div 4
        csInt == Big!Rsh(Big!SetBytes(<<S256!Digest(e)[1]>>), 8 - cs)
        ent   == Big!Add(Big!Lsh(Big!SetBytes(e), cs), csInt)
    IN Peel(ent, (Len(e) \div 4) * 3, <<>>)
ImplEncode(e, l) == Sentence(ImplIndices(e), EffLang(l))

\* mnemonic.go: CheckMnemonic
RECURSIVE Assemble(_,_,_,_)
Assemble(toks, l, i, acc) ==
    IF i > Len(toks) THEN acc
    ELSE Assemble(toks, l, i + 1, Big!Add(acc, Big!Lsh(Big!FromSmall(WordIndex(l, toks[i])), (Len(toks) - i) * 11)))
ImplCheck(in, lang) ==
    LET toks == SplitOnSpace(NFKD(in))  n == Len(toks) IN
    IF n % 3 # 0 \/ n < 12 \/ n > 24 THEN "wordlen"
    ELSE IF ~IsSupported(lang) \/ ~AllKnown(toks, lang) THEN "word"        \* nil map: nothing is found
    ELSE LET entBig == Assemble(toks, lang, 1, <<>>)
             cs     == n \div 3
             csBig  == Big!LowBits(entBig, cs)
             q      == Big!Rsh(entBig, cs)
             bytes  == IF BytesMode = "minimal" THEN Big!Bytes(q) ELSE Big!BytesPadded(q, cs * 4)
             sum    == Big!Rsh(Big!SetBytes(<<S256!Digest(bytes)[1]>>), 8 - cs)
         IN IF sum = csBig THEN "nil" ELSE "checksum"

\* bip39.go: the gates as the code writes them
ImplEntGate(k)   == ~(k < 16 \/ k > 32 \/ k % 4 # 0)
ImplCountGate(n) == ~(n < 12 \/ n > 24 \/ n % 3 # 0)
====
