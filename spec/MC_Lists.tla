---- MODULE MC_Lists ----
(***************************************************************************)
(* The golden word lists are well formed (C08's fixed part, C05's          *)
(* injectivity): 2048 pairwise distinct, non-empty, whitespace-free words, *)
(* each unchanged by the specification's NFKD; the text file rebuilt from  *)
(* each list has the recorded SHA-256 fingerprint, and english.txt's is    *)
(* the published 2f5eed53...; known BIP39 test vectors hold.               *)
(***************************************************************************)
EXTENDS BIP39Def, TLC
VARIABLE lang
Init == lang \in Langs
Next == UNCHANGED lang
Spec == Init /\ [][Next]_lang
WellFormedList == ListWellFormed(lang)
FromCanonicalFile == Provenance(lang) /\ EnglishFingerprint
\* vectors known by heart (BIP39 / Trezor): entropy 00..00, 7f..7f, 80..80, ff..ff (English)
W(s) == s
Rep(b, n) == [i \in 1..n |-> b]
FirstLast(e) == LET ix == Indices(e) IN <<ix[1], ix[Len(ix)]>>
Vectors == /\ Indices(Rep(0, 16)) = <<0,0,0,0,0,0,0,0,0,0,0,3>>                       \* abandon x11 about
           /\ List(2)[1] = <<97,98,97,110,100,111,110>> /\ List(2)[4] = <<97,98,111,117,116>>
           /\ Indices(Rep(255, 16)) = <<2047,2047,2047,2047,2047,2047,2047,2047,2047,2047,2047,2037>>   \* zoo x11 wrong
           /\ List(2)[2048] = <<122,111,111>> /\ List(2)[2038] = <<119,114,111,110,103>>
           /\ Indices(Rep(127, 16)) = <<1019,2015,1790,2039,1983,1533,2031,1919,1019,2015,1790,2040>>   \* legal winner thank year wave sausage worth useful legal winner thank yellow
           /\ List(2)[1020] = <<108,101,103,97,108>> /\ List(2)[2041] = <<121,101,108,108,111,119>>
           /\ Indices(Rep(128, 16)) = <<1028,32,257,8,64,514,16,128,1028,32,257,4>>                     \* letter advice cage absurd amount doctor acoustic avoid letter advice cage above
           /\ List(2)[1029] = <<108,101,116,116,101,114>> /\ List(2)[5] = <<97,98,111,118,101>>
           /\ Indices(Rep(0, 32))[24] = 102 /\ List(2)[103] = <<97,114,116>>                           \* abandon x23 art
           /\ Indices(Rep(255, 32))[24] = 1967 /\ List(2)[1968] = <<118,111,116,101>>                   \* zoo x23 vote
====
