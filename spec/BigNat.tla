---- MODULE BigNat ----
(***************************************************************************)
(* A model of math/big's natural numbers, as far as the package uses them. *)
(* Like math/big, a number is a little-endian sequence of machine words    *)
(* without leading (most significant) zero words; zero is the empty        *)
(* sequence.  TLC integers are 32-bit, so a word has 16 bits here (math/big*)
(* uses 64): the algorithms - ripple carry, shift across word boundaries,  *)
(* minimal big-endian Bytes() - are the same.                              *)
(***************************************************************************)
EXTENDS Integers, Sequences, SequencesExt
B == 65536
RECURSIVE NormW(_)
NormW(x) == IF x = <<>> THEN <<>> ELSE IF x[Len(x)] = 0 THEN NormW(Front(x)) ELSE x

\* SetBytes: big-endian bytes -> number
SetBytes(bs) ==
    LET n == Len(bs)  w == (n + 1) \div 2
        byte(k) == IF k >= 1 THEN bs[k] ELSE 0          \* k-th byte, 0 left of the start
    IN NormW([i \in 1..w |-> byte(n - 2 * i + 2) + 256 * byte(n - 2 * i + 1)])
FromSmall(v) == NormW(<<v % B, v \div B>>)              \* big.NewInt(v), 0 <= v < 2^31
Small(x) == IF x = <<>> THEN 0 ELSE IF Len(x) = 1 THEN x[1] ELSE x[1] + B * x[2]     \* Int64() of a value < 2^31

\* Lsh(x, k): shift left by k bits
Lsh(x, k) ==
    IF x = <<>> THEN <<>> ELSE
    LET q == k \div 16  r == k % 16  p == 2^r  pp == 2^(16 - r)
        limb(i) == IF i >= 1 /\ i <= Len(x) THEN x[i] ELSE 0
    IN NormW([i \in 1..(q + Len(x) + 1) |->
                IF i <= q THEN 0 ELSE ((limb(i - q) % pp) * p) + (limb(i - q - 1) \div pp)])
\* Quo(x, 2^k): shift right by k bits
Rsh(x, k) ==
    LET q == k \div 16  r == k % 16  p == 2^r  pp == 2^(16 - r)
        limb(i) == IF i >= 1 /\ i <= Len(x) THEN x[i] ELSE 0
    IN IF Len(x) <= q THEN <<>>
       ELSE NormW([i \in 1..(Len(x) - q) |-> (limb(i + q) \div p) + ((limb(i + q + 1) % p) * pp)])
\* And(x, 2^k - 1)
LowBits(x, k) ==
    LET q == k \div 16  r == k % 16
    IN NormW([i \in 1..(IF Len(x) < q + 1 THEN Len(x) ELSE q + 1) |-> IF i <= q THEN x[i] ELSE x[i] % (2^r)])
\* Add: ripple carry over the words
RECURSIVE AddW(_,_,_,_,_)
AddW(x, y, i, carry, acc) ==
    IF i > Len(x) /\ i > Len(y) THEN (IF carry = 0 THEN acc ELSE Append(acc, carry))
    ELSE LET s == (IF i <= Len(x) THEN x[i] ELSE 0) + (IF i <= Len(y) THEN y[i] ELSE 0) + carry
         IN AddW(x, y, i + 1, s \div B, Append(acc, s % B))
Add(x, y) == NormW(AddW(x, y, 1, 0, <<>>))
\* Bytes(): big-endian, no leading zero bytes
Bytes(x) ==
    IF x = <<>> THEN <<>> ELSE
    LET n == Len(x)
        all == [k \in 1..(2 * n) |-> LET w == x[n - ((k - 1) \div 2)] IN IF k % 2 = 1 THEN w \div 256 ELSE w % 256]
    IN IF all[1] = 0 THEN Tail(all) ELSE all
BytesPadded(x, n) == LET b == Bytes(x) IN [i \in 1..(n - Len(b)) |-> 0] \o b
====
