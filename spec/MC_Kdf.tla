---- MODULE MC_Kdf ----
(***************************************************************************)
(* C04, thorough tier: the seed formula evaluated from the TLA+ definition *)
(* of PBKDF2 at the full 2048 iterations (DeriveDef: U_1 = PRF(P, S||INT(1)),*)
(* U_k = PRF(P, U_{k-1}), T = xor of all U_k; only HMAC-SHA-512 itself is  *)
(* evaluated by its override, which SelfTest ties to HmacSha512Def) agrees *)
(* with the overridden Derive that the trace validation uses - so the      *)
(* iteration structure the property names is checked from the              *)
(* specification text, not only through the Java evaluator.                *)
(***************************************************************************)
EXTENDS BIP39Def, TLC
CONSTANTS Seed0, NCases
VARIABLE k
Init == k \in 1..NCases
Next == UNCHANGED k
Spec == Init /\ [][Next]_k
Txt(j, len) == [i \in 1..len |-> 97 + ((j * 7 + i * 13 + Seed0) % 26)]
M(j) == IF j % 4 = 0 THEN <<>> ELSE IF j % 4 = 1 THEN Txt(j, 150) ELSE IF j % 4 = 2 THEN <<12354, 12441, 233, 65313>> \o Txt(j, 5) ELSE Txt(j, 40)
P(j) == IF j % 3 = 0 THEN <<>> ELSE IF j % 3 = 1 THEN <<84, 82, 69, 90, 79, 82>> ELSE <<769, 13133>> \o Txt(j + 1, 9)
SeedByDefinitionAgrees == Seed(M(k), P(k)) = SeedByDefinition(M(k), P(k))
====
