---- MODULE Drive_History ----
(***************************************************************************)
(* Generator of call histories for the real package (C13, also C07/C14     *)
(* context).  It is Layer S over ABSTRACT arguments: language slots        *)
(* (A, B, C supported; U, V unsupported) and argument classes; its state   *)
(* is the part of BIP39Proc's state a sequential client can influence -    *)
(* which maps are built, which source is installed.  bin/check dumps the   *)
(* labelled state graph (-dump dot,actionlabels), covers every edge and    *)
(* takes seeded random walks through it; each path becomes a program that  *)
(* the harness concretises (slot -> language per program, class ->         *)
(* argument deterministically from the seed) and runs in a fresh process.  *)
(* The recorded events are validated by Trace.tla with the concrete        *)
(* arguments; the map sizes logged after each call are compared with the   *)
(* `built` set predicted here (MapLens events, drift level).               *)
(***************************************************************************)
EXTENDS Integers, FiniteSets, TLC
VARIABLES built, source
vars == <<built, source>>

Slots == {"A", "B", "C"}
BadSlots == {"U", "V"}
\* sentence classes; the first group passes the count gate and therefore builds the language's map
\* crossX: the valid sentence of slot X's language (the very string Chk("valid", X) uses) checked under another slot
CountOKClasses == {"valid", "badsum", "unknown", "alien", "nfc", "sep3000", "fullwidth", "crossA", "crossB", "crossC"}
CountBadClasses == {"short", "long", "empty", "tabs"}
EntClasses == {"e16", "e20", "e24", "e28", "e32", "e16z", "bad17", "bad0", "bad33"}
SeedClasses == {"ascii", "jp", "compat", "long"}
CountClasses == {"n12", "n15", "n18", "n21", "n24", "n0", "n13", "n25", "nneg"}
ScriptClasses == {"whole", "frag", "fail0", "fail5", "eofpartial"}

Init == built = {} /\ source = "os"
Chk(cls, s) == /\ built' = IF s \in Slots /\ cls \in CountOKClasses THEN built \cup {s} ELSE built
               /\ UNCHANGED source
Ent(cls, s)  == UNCHANGED vars
Seed(cls)    == UNCHANGED vars
Str(s)       == UNCHANGED vars
New(ncls, s, script) == /\ (source = "os" => script = "whole")      \* scripts only apply to an injected source
                        /\ UNCHANGED vars
Swap(kind)   == source' = kind /\ kind # source /\ UNCHANGED built
Next == \/ \E c \in CountOKClasses \cup CountBadClasses, s \in Slots \cup BadSlots : Chk(c, s)
        \/ \E c \in EntClasses, s \in Slots \cup BadSlots : Ent(c, s)
        \/ \E c \in SeedClasses : Seed(c)
        \/ \E s \in Slots \cup BadSlots : Str(s)
        \/ \E n \in CountClasses, s \in Slots \cup BadSlots, sc \in ScriptClasses : New(n, s, sc)
        \/ \E k \in {"os", "script"} : Swap(k)
Spec == Init /\ [][Next]_vars
TypeOK == built \subseteq Slots /\ source \in {"os", "script"}
====
