---- MODULE MC_GenRun ----
(***************************************************************************)
(* One RUN of the update-wordlist tool (C17) as a state machine.           *)
(* MC_Generator says what one target's file must contain; this module says *)
(* what a run over SEVERAL targets does to the tree it regenerates:        *)
(*                                                                         *)
(*   update-wordlist/main.go ranges over a Go map of (file, variable)      *)
(*   pairs - the ORDER of the targets is chosen by the runtime, so every   *)
(*   order is a behaviour; for each target it fetches the text, splits it  *)
(*   on LF, renders the non-empty pieces and writes the file over whatever *)
(*   an earlier run left there (os.Create: truncate); the first failing    *)
(*   fetch ends the run (log.Fatal): targets written before it stay        *)
(*   rewritten, the others stay as they were.                              *)
(*                                                                         *)
(* State: upstream[t] the text served for target t (fixed during the run), *)
(* disk[t] the words in t's file, disk0 the tree before the run, todo the  *)
(* targets not yet processed, scratch the tool's working storage for the   *)
(* pieces of the text being split.                                         *)
(*                                                                         *)
(* Two deliberate deviations are constants, so that TLC shows the          *)
(* invariants are not vacuous (negative controls) - both are shapes of     *)
(* seeded changes met in practice:                                         *)
(*   Scratch = "shared"  one scratch slice for all targets, grown when too *)
(*                       short and returned WHOLE (seeded change C17l):    *)
(*                       a target with fewer lines than an earlier one     *)
(*                       inherits its tail;                                *)
(*   Write = "notrunc"   the file is opened without O_TRUNC (seeded change *)
(*                       C17b): the tail of a longer previous file stays.  *)
(* The faithful tool is Scratch = "fresh", Write = "trunc".                *)
(*                                                                         *)
(* Binding: every value of `upstream` reached here is a scenario - which   *)
(* targets get how many lines, blank lines, a final LF or none - that      *)
(* bin/check concretises with words and serves to the real tool in one     *)
(* run over the output of the previous scenario (recipes.py, label         *)
(* "genrun"); the run is one unit of the trace, each Gen event is checked  *)
(* against Expected of its own input (Trace.tla), and a failing unit is    *)
(* replayed with the ten recorded inputs, each to its own target.          *)
(***************************************************************************)
EXTENDS Integers, Sequences, SequencesExt, FiniteSets, TLC
CONSTANTS NT,          \* number of targets (the tool has ten; the order argument needs two, the inheritance argument three)
          MaxLen,      \* longest upstream text, in symbols
          Words,       \* the alphabet of one-symbol words, e.g. {"a", "b"}
          Scratch,     \* "fresh" | "shared"
          Write        \* "trunc" | "notrunc"
VARIABLES upstream, disk, disk0, todo, scratch, status
vars == <<upstream, disk, disk0, todo, scratch, status>>

LF == "LF"
Alphabet == Words \cup {LF}
Targets == 1..NT

\* definition, as in MC_Generator (one word = a non-empty run of non-LF symbols)
RECURSIVE Lines(_,_,_)
Lines(s, cur, acc) == IF s = <<>> THEN Append(acc, cur)
                      ELSE IF Head(s) = LF THEN Lines(Tail(s), <<>>, Append(acc, cur))
                      ELSE Lines(Tail(s), Append(cur, Head(s)), acc)
NonEmpty(p) == SelectSeq(p, LAMBDA w : w # <<>>)
Expected(s) == NonEmpty(Lines(s, <<>>, <<>>))
Split(s) == Lines(s, <<>>, <<>>)

Texts == UNION {[1..n -> Alphabet] : n \in 0..MaxLen}
\* what an earlier run may have left in a file: nothing, or more words than any upstream of this run has
OldFiles == {<<>>, [i \in 1..(MaxLen + 1) |-> <<"z">>]}

Larger(a, b) == IF a > b THEN a ELSE b

Init == /\ upstream \in [Targets -> Texts]
        /\ disk0 \in [Targets -> OldFiles]
        /\ disk = disk0
        /\ todo = Targets
        /\ scratch = <<>>
        /\ status = "running"

\* the pieces the renderer sees for target t
Pieces(t) == LET p == Split(upstream[t]) IN
    IF Scratch = "fresh" THEN p
    ELSE [i \in 1..Larger(Len(p), Len(scratch)) |-> IF i <= Len(p) THEN p[i] ELSE scratch[i]]

Process(t) == /\ status = "running" /\ t \in todo
              /\ scratch' = Pieces(t)
              /\ LET out == NonEmpty(Pieces(t)) IN
                   disk' = [disk EXCEPT ![t] = IF Write = "trunc" \/ Len(out) >= Len(disk[t]) THEN out
                                               ELSE out \o SubSeq(disk[t], Len(out) + 1, Len(disk[t]))]
              /\ todo' = todo \ {t}
              /\ UNCHANGED <<upstream, disk0, status>>

\* a fetch fails: the run ends there (log.Fatal), nothing is written for t or for the targets after it
FetchFails(t) == /\ status = "running" /\ t \in todo
                 /\ status' = "aborted"
                 /\ UNCHANGED <<upstream, disk, disk0, todo, scratch>>

Finish == /\ status = "running" /\ todo = {}
          /\ status' = "done"
          /\ UNCHANGED <<upstream, disk, disk0, todo, scratch>>

Next == (\E t \in Targets : Process(t) \/ FetchFails(t)) \/ Finish
Spec == Init /\ [][Next]_vars

(* ---- properties ---- *)
TypeOK == /\ todo \subseteq Targets /\ status \in {"running", "done", "aborted"}
          /\ \A t \in Targets : upstream[t] \in Texts

\* C17 for a run: every file written so far holds exactly the non-empty lines of ITS OWN upstream, in order -
\* whatever the order of the targets, whatever the other targets were served, whatever was on disk before
RunFaithful == \A t \in Targets \ todo : disk[t] = Expected(upstream[t])

\* a target the run has not reached is as the previous run left it (also after an aborted run)
Untouched == \A t \in todo : disk[t] = disk0[t]

\* a run that reports success has rewritten every target
DoneMeansAll == status = "done" => todo = {}

\* one step writes at most one file, and only the file of the target it processes
OneFilePerStep == [][\A t \in Targets : disk'[t] # disk[t] => (t \in todo /\ t \notin todo')]_vars

\* the outcome does not depend on the order: when the run is done the tree is a function of upstream alone
OrderFree == status = "done" => \A t \in Targets : disk[t] = Expected(upstream[t])
====
