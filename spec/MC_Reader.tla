---- MODULE MC_Reader ----
(***************************************************************************)
(* Design-level model of NewMnemonic's use of its randomness source        *)
(* (bip39.go: count gate, io.ReadFull = io.ReadAtLeast(r, buf, len(buf)),  *)
(* "any error -> ("", err)"), exhaustive over everything a reader may do:  *)
(* every Read delivers k in 0..asked bytes together with nil, io.EOF,      *)
(* io.ErrUnexpectedEOF or some other error.  Bytes are identified by their *)
(* serial number in the source's output so that "uses exactly the first N  *)
(* delivered bytes, in order" is a state predicate (C06); the gate comes   *)
(* before any read (C09).                                                  *)
(*                                                                         *)
(* ReadImpl selects the loop: "readfull" (the code); negative controls     *)
(* "single" (one Read call, result used whatever its length) and           *)
(* "ignoreerr" (an error is ignored once some bytes have arrived),         *)
(* "atleastwords" (io.ReadAtLeast with the WORD count as minimum: the loop *)
(* stops once W of the N bytes are in - seeded change C06l) and "retryeof" *)
(* (a bare io.EOF is retried while the cumulative count is > 0 - seeded    *)
(* change C14l; a finite source that has ended stays ended, so the call    *)
(* never returns: the control violates Terminates, not an invariant).      *)
(* The labelled state graph of this module (-dump dot,actionlabels) is     *)
(* what the C06 check replays: one scripted reader per edge.               *)
(***************************************************************************)
EXTENDS Integers, Sequences, TLC
CONSTANTS W,            \* word count argument
          ReadImpl, MaxStutter
VARIABLES pc, n, buf, produced, err, stut, ret
vars == <<pc, n, buf, produced, err, stut, ret>>

CountOK == ~(W < 12 \/ W > 24 \/ W % 3 # 0)
N == W + W \div 3                                   \* make([]byte, length+length/3)
Kinds == {"", "EOF", "UEOF", "custom"}

Init == /\ pc = IF CountOK THEN "loop" ELSE "rejected"
        /\ n = 0 /\ buf = [i \in 1..(IF CountOK THEN N ELSE 0) |-> 0] /\ produced = 0
        /\ err = "" /\ stut = 0 /\ ret = "none"

\* the loop of the selected implementation: its minimum and its test of the last error
LoopMin == IF ReadImpl = "atleastwords" THEN W ELSE N
CanRead == IF ReadImpl = "retryeof" THEN err = "" \/ (err = "EOF" /\ n > 0) ELSE err = ""
\* one call r.Read(buf[n:]) : k bytes and error kind e
Read(k, e) ==
    /\ pc = "loop" /\ n < LoopMin /\ CanRead                  \* for n < min && err == nil
    /\ (err = "EOF" => k = 0 /\ e = "EOF")                   \* a finite source that has ended stays ended
    /\ k \in 0..(N - n) /\ e \in Kinds
    /\ (k = 0 /\ e = "" => stut < MaxStutter)                \* (0, nil) reads are retried; bounded here
    /\ buf' = [i \in 1..N |-> IF i > n /\ i <= n + k THEN produced + (i - n) ELSE buf[i]]
    /\ produced' = produced + k /\ n' = n + k /\ err' = e
    /\ stut' = IF k = 0 /\ e = "" THEN stut + 1 ELSE 0
    /\ pc' = IF ReadImpl = "single" THEN "exit" ELSE "loop"
    /\ UNCHANGED ret
\* loop exit and NewMnemonic's test of the error
Return ==
    /\ \/ pc = "loop" /\ ~(n < LoopMin /\ CanRead)
       \/ pc = "exit"
    /\ LET ferr == CASE ReadImpl = "readfull" -> IF n >= N THEN "" ELSE IF n > 0 /\ err = "EOF" THEN "UEOF" ELSE err
                     [] ReadImpl = "single" -> err
                     [] ReadImpl = "ignoreerr" -> IF n > 0 THEN "" ELSE err
                     [] ReadImpl = "atleastwords" -> IF n >= W THEN "" ELSE IF n > 0 /\ err = "EOF" THEN "UEOF" ELSE err
                     [] ReadImpl = "retryeof" -> IF n >= N THEN "" ELSE err
       IN ret' = IF ferr = "" THEN "ok" ELSE "fail"
    /\ pc' = "done" /\ UNCHANGED <<n, buf, produced, err, stut>>
Reject == pc = "rejected" /\ ret' = "wordlen" /\ pc' = "done" /\ UNCHANGED <<n, buf, produced, err, stut>>

Next == (\E k \in 0..N, e \in Kinds : Read(k, e)) \/ Return \/ Reject
Spec == Init /\ [][Next]_vars /\ WF_vars(Next)

\* C06
FailClosed == ret = "ok" => n >= N /\ buf = [i \in 1..N |-> i]      \* exactly the first N delivered bytes, in order
FailsOnlyWhenSourceFailed == ret = "fail" => n < N /\ err # ""
SuccessWhenDelivered == pc = "done" /\ CountOK /\ n >= N => ret = "ok"
\* C09
RejectedCountsConsumeNothing == ~CountOK => produced = 0 /\ ret \in {"none", "wordlen"}
AcceptedCountsNeverWordLen == CountOK => ret # "wordlen"
\* every call returns
Terminates == <>(ret # "none")
====
