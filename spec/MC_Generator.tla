---- MODULE MC_Generator ----
(***************************************************************************)
(* The update-wordlist tool (C17), update-wordlist/main.go: for each of    *)
(* the ten (file, variable) pairs it fetches <file>.txt, splits the text   *)
(* on LF, and renders the template                                         *)
(*     var <Variable> = []string{ {{range}}{{if .}} "<word>", {{end}}{{end}} }  *)
(* into internal/wordlist/<file>.go.                                       *)
(*                                                                         *)
(* Definition (what the property demands): the list in the generated file  *)
(* is exactly the non-empty lines of the input, in order; the variable is  *)
(* the one the table assigns to the file.                                  *)
(* Implementation shape: Split keeps empty pieces (a trailing LF gives a   *)
(* final empty piece, blank lines give empty pieces); the template's       *)
(* {{if .}} drops them; reading the file back yields the quoted words.     *)
(* TLC checks the two agree for every line structure up to MaxLines lines  *)
(* over a two-word alphabet with and without trailing LF; Render = "keep"  *)
(* (a template without {{if .}}) is the negative control.  Each reachable  *)
(* state is also a line structure that bin/check concretises (words of the *)
(* scripts BIP39 uses) and feeds to the real tool.                         *)
(***************************************************************************)
EXTENDS Integers, Sequences, SequencesExt, TLC
CONSTANTS MaxLines, Render          \* Render \in {"ifnonempty", "keep"}
VARIABLE input                      \* the fetched text: a sequence over {"a", "b", "LF"}
LF == "LF"
Alphabet == {"a", "b", LF}

\* definition
RECURSIVE Lines(_,_,_)
Lines(s, cur, acc) == IF s = <<>> THEN Append(acc, cur)
                      ELSE IF Head(s) = LF THEN Lines(Tail(s), <<>>, Append(acc, cur))
                      ELSE Lines(Tail(s), Append(cur, Head(s)), acc)
Expected(s) == SelectSeq(Lines(s, <<>>, <<>>), LAMBDA w : w # <<>>)

\* implementation shape: strings.Split, template range/if, parse back
Split(s) == Lines(s, <<>>, <<>>)                      \* strings.Split(src, "\n"): k separators -> k+1 pieces
Rendered(s) == LET p == Split(s) IN
    IF Render = "ifnonempty" THEN SelectSeq(p, LAMBDA w : w # <<>>) ELSE p
\* file -> variable table, as data (checked against the golden names in Trace.tla)
Files == <<"chinese_simplified", "chinese_traditional", "english", "french", "italian", "japanese", "korean", "spanish", "czech", "portuguese">>
Vars  == <<"ChineseSimplified", "ChineseTraditional", "English", "French", "Italian", "Japanese", "Korean", "Spanish", "Czech", "Portuguese">>

NLines(s) == Len(SelectSeq(s, LAMBDA x : x = LF)) + 1
Init == input = <<>>
Next == \E x \in Alphabet : /\ NLines(input) <= MaxLines /\ Len(input) < 2 * MaxLines + 1
                            /\ (x = LF => NLines(input) < MaxLines + 1)
                            /\ input' = Append(input, x)
Spec == Init /\ [][Next]_input

Faithful == Rendered(input) = Expected(input)
NoBlankEntries == \A i \in 1..Len(Rendered(input)) : Rendered(input)[i] # <<>>
TableWellFormed == Len(Files) = 10 /\ Len(Vars) = 10 /\ \A i, j \in 1..10 : i # j => Files[i] # Files[j] /\ Vars[i] # Vars[j]
====
