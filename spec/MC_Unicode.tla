---- MODULE MC_Unicode ----
(***************************************************************************)
(* Design-level checks of the specification's own NFKD (C04, C10, C11):    *)
(* it is a normal form - idempotent, fully decomposed, canonically         *)
(* ordered - on every code point that has a decomposition or a combining   *)
(* class (data/unicode_pools.json: 16 967 decomposable code points, 912    *)
(* marks, all assigned in Unicode 14), alone and in context; hence "equal  *)
(* NFKD forms" is an equivalence whose classes validation (which looks up  *)
(* NFKD(input)) and seed derivation (which hashes NFKD(input)) cannot      *)
(* split.  Also: the stream-safe variant coincides with NFKD up to 30      *)
(* non-starters and differs exactly by U+034F insertions beyond; the word  *)
(* separators the property names (U+3000, U+00A0, U+2003) normalise to     *)
(* U+0020; every list word is already in normal form (MC_Lists).           *)
(***************************************************************************)
EXTENDS BIP39Def, TLC
Pools == JsonDeserialize("unicode_pools.json")
ND == Len(Pools.decomposable)
NM == Len(Pools.marks)
VARIABLE node
Init == node = <<"root">>
Next == \/ node = <<"root">> /\ \E b \in 0..15 : node' = <<"bucket", b>>
        \/ node[1] = "bucket" /\ \E k \in 1..ND : k % 16 = node[2] /\ node' = <<"dec", k>>
        \/ node[1] = "bucket" /\ \E k \in 1..NM : k % 16 = node[2] /\ node' = <<"mark", k>>
Spec == Init /\ [][Next]_node

C == Pools.decomposable[node[2]]
M == Pools.marks[node[2]]
Mk(i) == Pools.marks[((node[2] * 31 + i * 17) % NM) + 1][1]      \* another mark
FullyDecomposed(s) == \A i \in 1..Len(s) : Decomp(s[i]) = <<s[i]>>
Ordered(s) == InOrder(s)
DecompositionIsNormal == node[1] = "dec" =>
    LET d == NFKD(<<C>>) IN
    /\ d # <<C>> /\ FullyDecomposed(d) /\ Ordered(d) /\ NFKD(d) = d
    /\ LET ctx == <<97, 769, C, 803, Mk(1)>>  n == NFKD(ctx) IN           \* in context: after a mark, before marks
         FullyDecomposed(n) /\ Ordered(n) /\ NFKD(n) = n /\ NFKDDef(ctx) = n
MarksAreOrdered == node[1] = "mark" =>
    /\ M[2] = CCC(M[1]) /\ M[2] > 0
    /\ LET s == <<97, Mk(1), M[1], Mk(2), 98, M[1], Mk(3)>>  n == NFKD(s) IN
         /\ Ordered(n) /\ NFKD(n) = n /\ Len(n) >= Len(s) /\ NFKDDef(s) = n
         /\ NFKD(<<M[1], 120, 121, Mk(1), 122>>) = NFKDDef(<<M[1], 120, 121, Mk(1), 122>>)  \* cut into pieces or not
         /\ NFKD(<<97, M[1], Mk(1)>>) = NFKD(<<97>> \o NFKD(<<M[1], Mk(1)>>))      \* normalising a part first changes nothing
    /\ (Decomp(M[1]) = <<M[1]>> =>           \* (a mark that decomposes into several marks lengthens the run)
            StreamSafeNFKD(<<97>> \o [i \in 1..30 |-> M[1]]) = NFKD(<<97>> \o [i \in 1..30 |-> M[1]]))
    /\ LET long == <<97>> \o [i \in 1..(32 - Len(Decomp(M[1]))) |-> 769] \o <<M[1]>> IN
         /\ MaxNonStarterRun(long) = 32
         /\ SelectSeq(StreamSafeNFKD(long), LAMBDA u : u # CGJ) # <<>>
         /\ Len(StreamSafeNFKD(long)) = Len(NFKD(long)) + 1
SeparatorsNormalise == \A u \in {12288, 160, 8195, 8194, 8201, 8239, 8287} : NFKD(<<u>>) = <<32>>
====
