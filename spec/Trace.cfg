SPECIFICATION TraceSpec
CONSTANTS Props = {"C04"} BytesMode = "padded"
CHECK_DEADLOCK FALSE
