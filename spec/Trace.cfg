SPECIFICATION TraceSpec
CONSTANTS Props = {"C01"} BytesMode = "padded"
CHECK_DEADLOCK FALSE
