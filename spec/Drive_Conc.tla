---- MODULE Drive_Conc ----
(***************************************************************************)
(* Generator of goroutine programs for the real package (C12).  What a     *)
(* client controls in a concurrent run is which goroutine makes which      *)
(* calls in which order - the projection of MC_Once's Start steps - not    *)
(* the interleaving of the steps inside sync.Once (those are explored      *)
(* exhaustively in MC_Once; the real runs rely on the Go race detector,    *)
(* whose happens-before analysis reports an unsynchronised pair of         *)
(* accesses whenever both execute, whatever the timing).                   *)
(*                                                                         *)
(* A program is prog[g] = the sequence of calls of goroutine g; a call is  *)
(* a code 10*op + slot with op in 1..6 (CheckMnemonic, IsMnemonicValid,    *)
(* NewMnemonicByEntropy, MnemonicToSeed, Language.String, NewMnemonic) and *)
(* slot in 1..3 (language slots A, B, C; the driver assigns languages).    *)
(* Every reachable state is a program; bin/check reads them from TLC's     *)
(* state dump.                                                             *)
(***************************************************************************)
EXTENDS Integers, Sequences
CONSTANTS G, MaxCalls, Ops, SlotsN
VARIABLE prog
Codes == {10 * o + s : o \in Ops, s \in 1..SlotsN}
Init == prog = [g \in 1..G |-> <<>>]
Next == \E g \in 1..G, c \in Codes :
            /\ Len(prog[g]) < MaxCalls
            /\ \A h \in 1..(g - 1) : Len(prog[h]) >= Len(prog[g]) + 1        \* fill goroutines in order: fewer duplicates
            /\ prog' = [prog EXCEPT ![g] = Append(@, c)]
Spec == Init /\ [][Next]_prog
TypeOK == \A g \in 1..G : Len(prog[g]) <= MaxCalls
====
