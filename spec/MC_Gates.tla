---- MODULE MC_Gates ----
(***************************************************************************)
(* The size gates as the code writes them (three-clause tests, Layer I)    *)
(* against the definition (membership in the five BIP39 sizes), for every  *)
(* integer in a window (C09).                                              *)
(***************************************************************************)
EXTENDS BIP39Impl, TLC
CONSTANT Window
VARIABLE n
Init == n \in (0 - Window)..Window
Next == UNCHANGED n
Spec == Init /\ [][Next]_n
EntGateAgrees   == ImplEntGate(n) <=> EntLenOK(n)
CountGateAgrees == ImplCountGate(n) <=> WordCountOK(n)
\* sizes correspond: n words <-> 4n/3 bytes, both ways
SizesCorrespond == (WordCountOK(n) => EntLenOK(n + n \div 3)) /\ (EntLenOK(n) => WordCountOK((n \div 4) * 3))
====
