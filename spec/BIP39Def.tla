---- MODULE BIP39Def ----
(***************************************************************************)
(* Layer D: BIP-0039 as the standard words it, on bit strings, over the    *)
(* golden word lists.  Every operator is evaluated by TLC on concrete      *)
(* values; the same text is model-checked (MC_*.tla) and used as the       *)
(* oracle that decides recorded executions of the Go package (Trace.tla).  *)
(*                                                                         *)
(* Conventions: entropy = sequence of bytes; text = sequence of units      *)
(* (code points; negative = raw byte of ill-formed UTF-8, see UTF8.tla);   *)
(* language = integer, 0..9 supported (Wordlists.tla).                     *)
(***************************************************************************)
EXTENDS Integers, Sequences, SequencesExt, FiniteSets, Bits, Unicode, Wordlists
S256 == INSTANCE SHA256
U8   == INSTANCE UTF8
KDF  == INSTANCE PBKDF2

------------------------------------------------------------------------------
\* Sizes
EntLenOK(k)    == k \in {16, 20, 24, 28, 32}
WordCountOK(n) == n \in {12, 15, 18, 21, 24}
CS(e)        == Len(e) \div 4            \* checksum bits  = ENT / 32, ENT = 8 * Len(e)
WordCount(e) == 3 * CS(e)                \* (ENT + CS) / 11

------------------------------------------------------------------------------
\* Generating the mnemonic
Checksum(e) == SubSeq(Bits8(S256!Digest(e)[1]), 1, CS(e))
AllBits(e)  == BytesToBits(e) \o Checksum(e)
Group(bits, i) == BitsToNat(SubSeq(bits, 11 * (i - 1) + 1, 11 * i))
Indices(e) == LET bits == AllBits(e) IN [i \in 1..WordCount(e) |-> Group(bits, i)]

Japanese == 5
Sep(l) == IF l = Japanese THEN <<12288>> ELSE <<32>>       \* U+3000 / U+0020
RECURSIVE Join(_,_)
Join(ws, sep) == IF ws = <<>> THEN <<>>
                 ELSE IF Len(ws) = 1 THEN ws[1]
                 ELSE ws[1] \o sep \o Join(Tail(ws), sep)
Sentence(idx, l) == Join([i \in 1..Len(idx) |-> List(l)[idx[i] + 1]], Sep(l))
Mnemonic(e, l) == Sentence(Indices(e), l)

------------------------------------------------------------------------------
\* Reading a mnemonic
\* split s at every unit satisfying IsSep, keeping empty pieces: with the
\* separator positions p_1 < ... < p_k the pieces are s[p_(j-1)+1 .. p_j - 1]
SplitBy(s, IsSep(_)) ==
    LET P == SetToSortSeq({i \in 1..Len(s) : IsSep(s[i])}, LAMBDA a, b : a < b)
        k == Len(P)
        bound(j) == IF j = 0 THEN 0 ELSE IF j = k + 1 THEN Len(s) + 1 ELSE P[j]
    IN [j \in 1..(k + 1) |-> SubSeq(s, bound(j - 1) + 1, bound(j) - 1)]
IsSpace(u) == u = 32
SplitOnSpace(s) == SplitBy(s, IsSpace)
\* whitespace-separated tokens: maximal runs of non-White_Space units
Tokens(s) == SelectSeq(SplitBy(s, IsWhiteSpace), LAMBDA t : t # <<>>)

AllKnown(toks, l) == \A i \in 1..Len(toks) : WordIndex(l, toks[i]) >= 0
IndexBits(toks, l) == FlattenSeq([i \in 1..Len(toks) |-> Bits11(WordIndex(l, toks[i]))])
\* the standard decoder: word -> index, concatenate, drop the checksum bits
EntropyOfBits(bits)  == BitsToBytes(SubSeq(bits, 1, 32 * (Len(bits) \div 33)))
ChecksumOfBits(bits) == SubSeq(bits, 32 * (Len(bits) \div 33) + 1, Len(bits))
EntropyOfTokens(toks, l) == EntropyOfBits(IndexBits(toks, l))
ChecksumOK(toks, l) == LET bits == IndexBits(toks, l) IN ChecksumOfBits(bits) = Checksum(EntropyOfBits(bits))

\* decoding of a sentence as produced by the generator (either separator)
Entropy(sentence, l) == EntropyOfTokens(Tokens(sentence), l)

TokensWellFormed(toks, l) == /\ IsSupported(l) /\ WordCountOK(Len(toks))
                             /\ AllKnown(toks, l) /\ ChecksumOK(toks, l)
\* C03: what an accepted string must be
WellFormed(units, l) == TokensWellFormed(Tokens(NFKD(units)), l)

\* Canonical spelling: the NFKD form is non-empty, whitespace-free tokens
\* separated by exactly one U+0020
CanonicalToks(toks) == \A i \in 1..Len(toks) : toks[i] # <<>> /\ \A k \in 1..Len(toks[i]) : ~IsWhiteSpace(toks[i][k])
\* the tokens of a canonical spelling (the empty text has none)
CanonTokens(units) == LET n == NFKD(units) IN IF n = <<>> THEN <<>> ELSE SplitOnSpace(n)
CanonicalForm(units) == CanonicalToks(CanonTokens(units))
\* C02: what must be accepted
Canonical(units, l) == LET toks == CanonTokens(units) IN CanonicalToks(toks) /\ TokensWellFormed(toks, l)

\* C15: the classes of defect of a sentence in canonical form
Defects(units, l) ==
    LET toks == CanonTokens(units)  n == Len(toks) IN
    (IF WordCountOK(n) THEN {} ELSE {"count"})
    \cup (IF IsSupported(l) /\ AllKnown(toks, l) THEN {} ELSE {"word"})
    \cup (IF WordCountOK(n) /\ IsSupported(l) /\ AllKnown(toks, l) /\ ~ChecksumOK(toks, l) THEN {"checksum"} ELSE {})
UnknownTokens(units, l) == LET toks == CanonTokens(units) IN
    {toks[i] : i \in {j \in 1..Len(toks) : ~IsSupported(l) \/ WordIndex(l, toks[j]) < 0}}

------------------------------------------------------------------------------
\* From mnemonic to seed
MnemonicLit == <<109, 110, 101, 109, 111, 110, 105, 99>>         \* "mnemonic"
SeedInputs(m, p) == <<U8!Encode(NFKD(m)), U8!Encode(MnemonicLit) \o U8!Encode(NFKD(p))>>
Seed(m, p) == LET io == SeedInputs(m, p) IN KDF!Derive(io[1], io[2], 2048, 64)
\* the same through the TLA+ definitions of PBKDF2 (HMAC evaluated by override)
SeedByDefinition(m, p) == LET io == SeedInputs(m, p) IN KDF!DeriveDef(io[1], io[2], 2048, 64)
\* what golang.org/x/text computes instead when a run of >30 non-starters occurs (finding F3)
StreamSafeSeed(m, p) == KDF!Derive(U8!Encode(StreamSafeNFKD(m)),
                                   U8!Encode(StreamSafeNFKD(MnemonicLit \o p)), 2048, 64)
HasLongRun(m, p) == StreamSafeDiffers(m) \/ StreamSafeDiffers(MnemonicLit \o p)

------------------------------------------------------------------------------
\* Language names
LangNames == << <<67,104,105,110,101,115,101,83,105,109,112,108,105,102,105,101,100>>,          \* ChineseSimplified
                <<67,104,105,110,101,115,101,84,114,97,100,105,116,105,111,110,97,108>>,        \* ChineseTraditional
                <<69,110,103,108,105,115,104>>, <<70,114,101,110,99,104>>,                      \* English French
                <<73,116,97,108,105,97,110>>, <<74,97,112,97,110,101,115,101>>,                 \* Italian Japanese
                <<75,111,114,101,97,110>>, <<83,112,97,110,105,115,104>>,                       \* Korean Spanish
                <<67,122,101,99,104>>, <<80,111,114,116,117,103,117,101,115,101>> >>            \* Czech Portuguese
\* an int of any size is given as sign + decimal digits (TLC integers are 32-bit)
LangNameOf(neg, digits) ==
    IF ~neg /\ Len(digits) = 1 THEN LangNames[digits[1] + 1]
    ELSE <<76,97,110,103,117,97,103,101,40>> \o (IF neg THEN <<45>> ELSE <<>>)
         \o [i \in 1..Len(digits) |-> 48 + digits[i]] \o <<41>>                                 \* "Language(" .. ")"
RECURSIVE Digits(_)
Digits(n) == IF n < 10 THEN <<n>> ELSE Append(Digits(n \div 10), n % 10)
LangName(N) == IF N < 0 THEN LangNameOf(TRUE, Digits(0 - N)) ELSE LangNameOf(FALSE, Digits(N))
====
