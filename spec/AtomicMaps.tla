---- MODULE AtomicMaps ----
(***************************************************************************)
(* What a client may assume about the lazily built maps (Layer S's view):  *)
(* each language's map is built at most once, in one atomic step, and      *)
(* every lookup happens through a completely built map.  MC_Once checks    *)
(* that the sync.Once protocol of lang.go IMPLEMENTS this specification    *)
(* (refinement mapping: a map is "full" from the moment the once's done    *)
(* flag is stored) - which is what makes it sound for BIP39Proc and        *)
(* Trace.tla to treat CheckMnemonic as one atomic step.                    *)
(***************************************************************************)
EXTENDS Sequences
CONSTANTS G, L
VARIABLES amap, ares
avars == <<amap, ares>>
AInit == amap = [l \in L |-> "nil"] /\ ares = [g \in G |-> <<>>]
ABuild(l) == amap[l] = "nil" /\ amap' = [amap EXCEPT ![l] = "full"] /\ UNCHANGED ares
ALookup(g, l) == amap[l] = "full" /\ ares' = [ares EXCEPT ![g] = Append(@, "full")] /\ UNCHANGED amap
ANext == (\E l \in L : ABuild(l)) \/ (\E g \in G, l \in L : ALookup(g, l))
ASpec == AInit /\ [][ANext]_avars
====
