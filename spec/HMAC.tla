---- MODULE HMAC ----
(***************************************************************************)
(* RFC 2104 HMAC instantiated with SHA-512 (block size 128 bytes).         *)
(* HmacSha512Def is the definition; HmacSha512 == HmacSha512Def carries a  *)
(* TLC override (HMAC written over JDK MessageDigest, so that the empty    *)
(* key - the empty mnemonic - is covered).                                 *)
(***************************************************************************)
EXTENDS Integers, Sequences, Bitwise
S512 == INSTANCE SHA512
Block == 128
\* a key longer than one block is hashed first; then zero-padded to a block
PadKey(k) == LET k1 == IF Len(k) > Block THEN S512!Digest(k) ELSE k
             IN k1 \o [i \in 1..(Block - Len(k1)) |-> 0]
HmacSha512Def(key, msg) ==
    LET k  == PadKey(key)
        ip == [i \in 1..Block |-> k[i] ^^ 54]     \* 0x36
        op == [i \in 1..Block |-> k[i] ^^ 92]     \* 0x5c
    IN S512!Digest(op \o S512!Digest(ip \o msg))
HmacSha512(key, msg) == HmacSha512Def(key, msg)
====
