---- MODULE MC_Names ----
(***************************************************************************)
(* Design-level check of Language.String (C16, C14): the stringer-shaped   *)
(* implementation - one concatenated name string, an offset table, a       *)
(* bounds test, a slice - against the definition LangName, for every N in  *)
(* a window.  StringerTable = "stale9" is the pinned commit's generated    *)
(* file (finding F2: nine names, no i < 0 test); it must be a              *)
(* counterexample.  "full10" is the regenerated file.                      *)
(***************************************************************************)
EXTENDS BIP39Def, TLC
CONSTANTS StringerTable, Window        \* TLC configuration files have no negative numerals: N ranges over -Window..Window
VARIABLE n

NNames == IF StringerTable = "stale9" THEN 9 ELSE 10
NameStr == FlattenSeq([i \in 1..NNames |-> LangNames[i]])                 \* _Language_name
RECURSIVE Offsets(_)
Offsets(k) == IF k = 0 THEN <<0>> ELSE LET o == Offsets(k - 1) IN Append(o, o[k] + Len(LangNames[k]))
Index == Offsets(NNames)                                                  \* _Language_index
FormatInt(i) == IF i < 0 THEN <<45>> \o [j \in 1..Len(Digits(0 - i)) |-> 48 + Digits(0 - i)[j]]
                ELSE [j \in 1..Len(Digits(i)) |-> 48 + Digits(i)[j]]
Panic == <<"panic: index out of range">>
ImplString(i) ==
    IF (StringerTable = "full10" /\ i < 0) \/ i >= Len(Index) - 1
    THEN <<76,97,110,103,117,97,103,101,40>> \o FormatInt(i) \o <<41>>
    ELSE IF i + 1 < 1 \/ i + 2 > Len(Index) THEN Panic                   \* Go's bounds check on _Language_index[i]
    ELSE SubSeq(NameStr, Index[i + 1] + 1, Index[i + 2])

Init == n \in (0 - Window)..Window
Next == UNCHANGED n
Spec == Init /\ [][Next]_n

NoPanic    == ImplString(n) # Panic
NamesAgree == ImplString(n) = LangName(n)
ASSUME \A i, j \in 1..10 : LangNames[i] # <<>> /\ (i # j => LangNames[i] # LangNames[j])
ASSUME Len(NameStr) < 256                                                 \* the uint8 offset table suffices
====
