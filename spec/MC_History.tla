---- MODULE MC_History ----
(***************************************************************************)
(* Design-level check of Layer S over call histories (C13, C07, C09, C14). *)
(* The calls are concrete: real entropies, real sentences of three         *)
(* supported languages, two unsupported language values, rejected sizes,   *)
(* a source that delivers or fails.  Validation looks words up THROUGH the *)
(* state (the lazily built map of the language, guarded as MapGuard says), *)
(* so "the result of a call does not depend on the history" is a property  *)
(* of the guard protocol, not a tautology:                                 *)
(*   HistoryIndependence  in every reachable state, every call returns     *)
(*                        what the state-free Layer I/D result says        *)
(*   SourceOnlyBySwap     only SwapSource changes the source; it is the OS *)
(*                        source initially                                 *)
(*   GateBeforeRead       a rejected count never reaches the source        *)
(*   EveryCallReturns     (liveness) a call in flight returns              *)
(* MapGuard = "perlang" is the code (one sync.Once per language);          *)
(* "shared" (one guard for all languages) is the negative control: the     *)
(* second language used finds its map unbuilt.                             *)
(* The labelled state graph is also what the C13 check walks to produce    *)
(* call sequences for the real package.                                    *)
(***************************************************************************)
EXTENDS BIP39Proc, TLC

CONSTANT MapGuard
VARIABLES guard,       \* "perlang": set of languages whose once has fired; "shared": TRUE/FALSE in guard["all"]
          last         \* name of the last action (for the action properties)
hvars == <<procVars, guard, last>>

ULangs == {0, 2, 5}                        \* ChineseSimplified, English, Japanese
BadLangs == {-1, 10}
E16 == <<0, 0, 7, 200, 13, 255, 1, 2, 3, 4, 5, 6, 7, 8, 9, 10>>
E20 == [i \in 1..20 |-> (i * 53) % 256]
Ents == {E16, E20, <<1, 2, 3>>, <<>>}
Good(l) == Mnemonic(E16, l)
BadSum(l) == LET ix == Indices(E16) IN Sentence([ix EXCEPT ![12] = (ix[12] + 1) % 2048], l)
Short(l) == Sentence(SubSeq(Indices(E16), 1, 11), l)
Unknown(l) == Good(l) \o <<32, 113, 113>>   \* 13 tokens ... and an unknown one: count defect first
Alien(l) == LET ix == Indices(E20) IN Sentence(ix, IF l = 2 THEN 0 ELSE 2)     \* a sentence of another list
Sentences(l) == {Good(l), BadSum(l), Short(l), Unknown(l), Alien(l), <<>>}
Counts == {12, 13, 24, 0}
Stream == [i \in 1..40 |-> (i * 29 + 3) % 256]           \* what an injected source delivers

\* ---- validation through the state ----------------------------------------
Built(l) == IF MapGuard = "perlang" THEN l \in guard ELSE guard # {}
\* mapping(): fires the guard (building the map of THIS language) if it has not fired
MapAfterCall(l) == IF IsSupported(l) /\ ~Built(l) THEN [mapv EXCEPT ![l] = "full"] ELSE mapv
GuardAfterCall(l) == IF IsSupported(l) THEN guard \cup {l} ELSE guard
LookupIn(m, l, w) == IF IsSupported(l) /\ m[l] = "full" THEN WordIndex(l, w) ELSE -1        \* nil / unbuilt map: not found
VerdictInState(in, lang) ==
    LET toks == SplitOnSpace(NFKD(in))  n == Len(toks)  m == MapAfterCall(lang) IN
    IF ~ImplCountGate(n) THEN "wordlen"
    ELSE IF \E i \in 1..n : LookupIn(m, lang, toks[i]) < 0 THEN "word"
    ELSE IF ChecksumOK(toks, lang) THEN "nil" ELSE "checksum"

\* ---- actions ---------------------------------------------------------------
DoCheck(in, lang) ==
    /\ Idle /\ last' = "Check"
    /\ IF ImplCountGate(Len(SplitOnSpace(NFKD(in))))
       THEN mapv' = MapAfterCall(lang) /\ guard' = GuardAfterCall(lang)
       ELSE UNCHANGED <<mapv, guard>>
    /\ UNCHANGED <<source, callVars>>
DoPure == Idle /\ last' = "Pure" /\ UNCHANGED <<procVars, guard>>      \* ByEntropy, ToSeed, String: no state touched
DoSwap(new) == SwapSource(new) /\ last' = "Swap" /\ UNCHANGED guard
DoCall(n, lang) == CallNewMnemonic(ImplCountGate(n), n, lang) /\ last' = "CallNew" /\ UNCHANGED guard
DoRead(k, e) == /\ source # "os" /\ Guard_ReadStep /\ k \in 0..(need - Len(delivered))
                /\ ReadStep(SubSeq(Stream, Len(delivered) + 1, Len(delivered) + k), e)
                /\ (k = 0 => e # "")                                   \* (0, nil) stutter: see MC_Reader
                /\ last' = "Read" /\ UNCHANGED guard
DoOSRead == source = "os" /\ Guard_ReadStep /\ ReadStep(SubSeq(Stream, 1, need), "") /\ last' = "Read" /\ UNCHANGED guard
DoReturn == Guard_Return /\ ReturnNewMnemonic /\ last' = "Return" /\ UNCHANGED guard

AnyRead == \E k \in {0, 5, need - Len(delivered)}, e \in {"", "EOF", "custom"} : DoRead(k, e)
Init == ProcInit /\ guard = {} /\ last = "Init"
Next == \/ \E l \in ULangs \cup BadLangs : \E s \in Sentences(IF l \in ULangs THEN l ELSE 2) : DoCheck(s, l)
        \/ DoPure
        \/ \E s \in {"os", "script"} : DoSwap(s)
        \/ \E n \in Counts, l \in ULangs \cup BadLangs : DoCall(n, l)
        \/ AnyRead
        \/ DoOSRead
        \/ DoReturn
Spec == Init /\ [][Next]_hvars /\ WF_hvars(DoReturn) /\ WF_hvars(DoOSRead) /\ WF_hvars(AnyRead)

\* ---- properties --------------------------------------------------------------
HistoryIndependence ==
    Idle => /\ \A l \in ULangs \cup BadLangs : \A s \in Sentences(IF l \in ULangs THEN l ELSE 2) :
                    VerdictInState(s, l) = ImplVerdict(s, l)
            /\ \A e \in Ents, l \in ULangs \cup BadLangs :
                    ResByEntropy(Len(e), e, l) = [out |-> IF EntLenOK(Len(e)) THEN ImplEncode(e, l) ELSE <<>>,
                                                  err |-> IF EntLenOK(Len(e)) THEN "nil" ELSE "entlen"]
ResultsWellTyped ==            \* no panic outcome: every result is in the declared result set
    /\ \A l \in ULangs \cup BadLangs : \A s \in Sentences(IF l \in ULangs THEN l ELSE 2) :
            VerdictInState(s, l) \in {"nil", "wordlen", "word", "checksum"}
    /\ pc # "idle" => ResNewMnemonic.err \in {"nil", "wordlen", "source"}
MapsMatchGuards == \A l \in Langs : (mapv[l] = "full") <=> (IF MapGuard = "perlang" THEN l \in guard ELSE FALSE \/ mapv[l] = "full")
GateBeforeRead == pc = "rejected" => delivered = <<>> /\ ~Guard_ReadStep
ReturnMatchesDelivery ==
    pc = "reading" /\ ReadFullOK => ResNewMnemonic.out = ImplMnemonic(SubSeq(Stream, 1, need), curLang)
SourceInitiallyOS == last = "Init" => source = "os"
SourceOnlyBySwap == [][source' # source => last' = "Swap"]_hvars
EveryCallReturns == (pc # "idle") ~> (pc = "idle")
====
