---- MODULE MC_Calls ----
(***************************************************************************)
(* Design-level model of NewMnemonic calls that overlap in time on one     *)
(* randomness source (C06, C07, C12, C13): what a call returns is the      *)
(* encoding of the bytes delivered to that very call, whatever other calls *)
(* do meanwhile and whatever earlier calls left behind.                    *)
(*                                                                         *)
(* The code (bip39.go) allocates the entropy buffer per call:              *)
(*     entropy := make([]byte, length+length/3)                            *)
(*     io.ReadFull(cryptoRander, entropy)      -- several Read calls       *)
(*     fromEntropy(entropy, lang)              -- reads the buffer         *)
(* Every Read and the encoding are separate steps here, so TLC explores    *)
(* every interleaving of the reads and encodings of the calls.  A byte is  *)
(* identified by <<call, serial number>>, so "made of its own bytes, in    *)
(* order" is a state predicate.                                            *)
(*                                                                         *)
(* BufImpl selects where the entropy lives:                                *)
(*   "percall"     the code: a fresh buffer per call                       *)
(*   "shared"      one package-level buffer (a "no allocation" change)     *)
(*   "lockedread"  one package-level buffer, a mutex held across the reads *)
(*                 only: the encoding happens after the unlock             *)
(*   "lockedcall"  one package-level buffer, the mutex held until the      *)
(*                 encoding is done (correct, serialises callers)          *)
(*   "pooled"      buffers from a free list, returned once per call        *)
(*                 (correct)                                               *)
(*   "pooledtwice" the failure path returns the buffer explicitly and the  *)
(*                 deferred return runs as well: the buffer is on the list *)
(*                 twice and two later calls share it                      *)
(* A call may fail part-way (FailAt), which must leave nothing behind.     *)
(* Calls are also run one after another (Seq = TRUE) to cover "earlier     *)
(* calls left something behind" without concurrency.                       *)
(***************************************************************************)
EXTENDS Integers, Sequences, FiniteSets, TLC
CONSTANTS Calls,        \* set of call identities
          N,            \* bytes a call needs
          BufImpl, MaxFail
VARIABLES pc,           \* call -> "idle" | "reading" | "encode" | "done" | "failed"
          got,          \* call -> number of bytes delivered to it so far
          bufOf,        \* call -> buffer identity it writes to / reads from
          mem,          \* buffer identity -> sequence of N cells
          lock,         \* holder of the mutex, or "free"
          free,         \* free list of pooled buffers
          out,          \* call -> what it encoded (sequence of cells), <<>> before
          nfail         \* failures so far (bounds the only loop)
vars == <<pc, got, bufOf, mem, lock, free, out, nfail>>

Pooled == BufImpl \in {"pooled", "pooledtwice"}
Bufs == IF BufImpl = "percall" THEN Calls ELSE IF Pooled THEN {"p1", "p2", "p3"} ELSE {"shared"}
Stale == <<"stale", 0>>
Init == /\ pc = [c \in Calls |-> "idle"] /\ got = [c \in Calls |-> 0]
        /\ bufOf = [c \in Calls |-> "none"]
        /\ mem = [b \in Bufs |-> [i \in 1..N |-> Stale]]
        /\ lock = "free" /\ free = IF Pooled THEN <<"p1", "p2", "p3">> ELSE <<>>
        /\ out = [c \in Calls |-> <<>>] /\ nfail = 0

UsesLock == BufImpl \in {"lockedread", "lockedcall"}
\* entry: obtain the buffer (and the mutex)
Begin(c) ==
    /\ pc[c] = "idle"
    /\ (UsesLock => lock = "free")
    /\ (Pooled => free # <<>>)
    /\ lock' = IF UsesLock THEN c ELSE lock
    /\ bufOf' = [bufOf EXCEPT ![c] = CASE BufImpl = "percall" -> c
                                       [] Pooled -> Head(free)
                                       [] OTHER -> "shared"]
    /\ free' = IF Pooled THEN Tail(free) ELSE free
    \* make() zeroes a fresh buffer; shared and pooled buffers keep what was in them
    /\ mem' = IF BufImpl = "percall" THEN [mem EXCEPT ![c] = [i \in 1..N |-> <<"zero", 0>>]] ELSE mem
    /\ pc' = [pc EXCEPT ![c] = "reading"] /\ UNCHANGED <<got, out, nfail>>
\* one Read: k more bytes of the call's own stream land in its buffer
Read(c, k) ==
    /\ pc[c] = "reading" /\ k \in 1..(N - got[c])
    /\ mem' = [mem EXCEPT ![bufOf[c]] = [i \in 1..N |-> IF i > got[c] /\ i <= got[c] + k THEN <<c, i>> ELSE @[i]]]
    /\ got' = [got EXCEPT ![c] = @ + k]
    /\ pc' = [pc EXCEPT ![c] = IF got[c] + k = N THEN "encode" ELSE "reading"]
    /\ lock' = IF BufImpl = "lockedread" /\ got[c] + k = N THEN "free" ELSE lock
    /\ UNCHANGED <<bufOf, free, out, nfail>>
\* the source fails before the buffer is full: the call returns ("", err)
Fail(c) ==
    /\ pc[c] = "reading" /\ got[c] < N /\ nfail < MaxFail /\ nfail' = nfail + 1
    /\ pc' = [pc EXCEPT ![c] = "failed"]
    /\ lock' = IF UsesLock /\ lock = c THEN "free" ELSE lock
    /\ free' = CASE BufImpl = "pooled" -> Append(free, bufOf[c])
                 [] BufImpl = "pooledtwice" -> Append(Append(free, bufOf[c]), bufOf[c])
                 [] OTHER -> free
    /\ UNCHANGED <<got, bufOf, mem, out>>
\* fromEntropy reads the buffer
Encode(c) ==
    /\ pc[c] = "encode"
    /\ out' = [out EXCEPT ![c] = mem[bufOf[c]]]
    /\ pc' = [pc EXCEPT ![c] = "done"]
    /\ lock' = IF BufImpl = "lockedcall" THEN "free" ELSE lock
    /\ free' = IF Pooled THEN Append(free, bufOf[c]) ELSE free
    /\ UNCHANGED <<got, bufOf, mem, nfail>>
\* a failed or finished caller calls again (histories: what was left behind must not matter)
Again(c) ==
    /\ pc[c] = "failed"
    /\ pc' = [pc EXCEPT ![c] = "idle"] /\ got' = [got EXCEPT ![c] = 0]
    /\ UNCHANGED <<bufOf, mem, lock, free, out, nfail>>

Next == \E c \in Calls : Begin(c) \/ (\E k \in 1..N : Read(c, k)) \/ Fail(c) \/ Encode(c) \/ Again(c)
Spec == Init /\ [][Next]_vars

\* C06 / C07 / C12: a call that returned a sentence encoded exactly its own N bytes, in order
OwnBytesOnly == \A c \in Calls : pc[c] = "done" => out[c] = [i \in 1..N |-> <<c, i>>]
\* nothing of another call or of an earlier call is ever visible in a result
NoForeignByte == \A c \in Calls : \A i \in 1..Len(out[c]) : out[c][i][1] = c
\* a buffer has at most one user at a time (what "pooled" breaks)
Users(b) == {c \in Calls : bufOf[c] = b /\ pc[c] \in {"reading", "encode"}}
ExclusiveBuffers == BufImpl \in {"percall", "lockedcall", "pooled"} => \A b \in Bufs : Cardinality(Users(b)) <= 1
\* the mutex variants do not deadlock and do not lose the lock
LockSane == lock = "free" \/ (lock \in Calls /\ pc[lock] \in {"reading", "encode"})
====
