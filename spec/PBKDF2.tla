---- MODULE PBKDF2 ----
(***************************************************************************)
(* RFC 8018 PBKDF2 with PRF = HMAC-SHA-512.                                *)
(*   T_i = U_1 xor U_2 xor ... xor U_c,  U_1 = PRF(P, S || INT(i)),        *)
(*   U_k = PRF(P, U_{k-1});  DK = first dkLen bytes of T_1 || T_2 || ...   *)
(* DeriveDef is the definition; Derive == DeriveDef carries a TLC override.*)
(* (Iter returns explicit tuples: TLC does not normalise function          *)
(* constructors returned through recursion.)                               *)
(***************************************************************************)
EXTENDS Integers, Sequences, Bitwise
H == INSTANCE HMAC
Int4(i) == << (i \div 16777216) % 256, (i \div 65536) % 256, (i \div 256) % 256, i % 256 >>
Tup64(u) == <<u[1],u[2],u[3],u[4],u[5],u[6],u[7],u[8],u[9],u[10],u[11],u[12],u[13],u[14],u[15],u[16],
              u[17],u[18],u[19],u[20],u[21],u[22],u[23],u[24],u[25],u[26],u[27],u[28],u[29],u[30],u[31],u[32],
              u[33],u[34],u[35],u[36],u[37],u[38],u[39],u[40],u[41],u[42],u[43],u[44],u[45],u[46],u[47],u[48],
              u[49],u[50],u[51],u[52],u[53],u[54],u[55],u[56],u[57],u[58],u[59],u[60],u[61],u[62],u[63],u[64]>>
RECURSIVE Iter(_,_,_,_)
Iter(pw, u, t, k) ==
    IF k = 0 THEN t
    ELSE LET u2 == H!HmacSha512(pw, u)
         IN Iter(pw, Tup64(u2), Tup64([j \in 1..64 |-> t[j] ^^ u2[j]]), k - 1)
BlockT(pw, salt, c, i) == LET u1 == Tup64(H!HmacSha512(pw, salt \o Int4(i))) IN Iter(pw, u1, u1, c - 1)
RECURSIVE Blocks(_,_,_,_,_)
Blocks(pw, salt, c, i, n) == IF i > n THEN <<>> ELSE BlockT(pw, salt, c, i) \o Blocks(pw, salt, c, i + 1, n)
DeriveDef(pw, salt, c, dkLen) == SubSeq(Blocks(pw, salt, c, 1, (dkLen + 63) \div 64), 1, dkLen)
Derive(pw, salt, c, dkLen) == DeriveDef(pw, salt, c, dkLen)
====
