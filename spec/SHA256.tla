---- MODULE SHA256 ----
(***************************************************************************)
(* FIPS 180-4 SHA-256 over sequences of bytes (0..255), written so that    *)
(* TLC can evaluate it: TLC integers are 32-bit signed, so a 32-bit word   *)
(* is a pair <<hi16, lo16>> of 16-bit limbs.                               *)
(*                                                                         *)
(* DigestDef is the definition.  Digest is what the rest of the            *)
(* specification uses; it is *defined* as DigestDef and carries a TLC      *)
(* module override (overrides/verif/Prims.java, JDK MessageDigest) used    *)
(* as a fast evaluator.  SelfTest.tla re-establishes Digest = DigestDef    *)
(* on a seeded sample in every run of the machinery.                       *)
(***************************************************************************)
EXTENDS Integers, Sequences, Bitwise
W16 == 65536
K == << <<17034,12184>>, <<28983,17553>>, <<46528,64463>>, <<59829,56229>>, <<14678,49755>>, <<23025,4593>>, <<37439,33444>>, <<43804,24277>>, <<55303,43672>>, <<4739,23297>>, <<9265,34238>>, <<21772,32195>>, <<29374,23924>>, <<32990,45566>>, <<39900,1703>>, <<49563,61812>>, <<58523,27073>>, <<61374,18310>>, <<4033,40390>>, <<9228,41420>>, <<11753,11375>>, <<19060,33962>>, <<23728,43484>>, <<30457,35034>>, <<38974,20818>>, <<43057,50797>>, <<45059,10184>>, <<48985,32711>>, <<50912,3059>>, <<54695,37191>>, <<1738,25425>>, <<5161,10599>>, <<10167,2693>>, <<11803,8504>>, <<19756,28156>>, <<21304,3347>>, <<25866,29524>>, <<30314,2747>>, <<33218,51502>>, <<37490,11397>>, <<41663,59553>>, <<43034,26187>>, <<49739,35696>>, <<51052,20899>>, <<53650,59417>>, <<54937,1572>>, <<62478,13701>>, <<4202,41072>>, <<6564,49430>>, <<7735,27656>>, <<10056,30540>>, <<13488,48309>>, <<14620,3251>>, <<20184,43594>>, <<23452,51791>>, <<26670,28659>>, <<29839,33518>>, <<30885,25455>>, <<33992,30740>>, <<36039,520>>, <<37054,65530>>, <<42064,27883>>, <<48889,41975>>, <<50801,30962>> >>
H0 == << <<27145,58983>>, <<47975,44677>>, <<15470,62322>>, <<42319,62778>>, <<20750,21119>>, <<39685,26764>>, <<8067,55723>>, <<23520,52505>> >>
Add2(a,b) == LET l == a[2]+b[2] IN <<(a[1]+b[1]+(l \div W16)) % W16, l % W16>>
Add4(a,b,c,d) == LET l == a[2]+b[2]+c[2]+d[2] IN <<(a[1]+b[1]+c[1]+d[1]+(l \div W16)) % W16, l % W16>>
Add5(a,b,c,d,e) == LET l == a[2]+b[2]+c[2]+d[2]+e[2] IN <<(a[1]+b[1]+c[1]+d[1]+e[1]+(l \div W16)) % W16, l % W16>>
XorW(a,b) == <<a[1] ^^ b[1], a[2] ^^ b[2]>>
Xor3(a,b,c) == <<(a[1] ^^ b[1]) ^^ c[1], (a[2] ^^ b[2]) ^^ c[2]>>
AndW(a,b) == <<a[1] & b[1], a[2] & b[2]>>
NotW(a) == <<65535 - a[1], 65535 - a[2]>>
RotS(a,n) == IF n = 0 THEN a ELSE LET p == 2^n q == 2^(16-n) IN << (a[1] \div p) + (a[2] % p)*q, (a[2] \div p) + (a[1] % p)*q >>
RotR(a,n) == IF n >= 16 THEN RotS(<<a[2],a[1]>>, n-16) ELSE RotS(a,n)
ShR(a,n) == IF n >= 16 THEN <<0, a[1] \div 2^(n-16)>> ELSE LET p == 2^n q == 2^(16-n) IN << a[1] \div p, (a[2] \div p) + (a[1] % p)*q >>
s0(x) == Xor3(RotR(x,7), RotR(x,18), ShR(x,3))
s1(x) == Xor3(RotR(x,17), RotR(x,19), ShR(x,10))
S0(x) == Xor3(RotR(x,2), RotR(x,13), RotR(x,22))
S1(x) == Xor3(RotR(x,6), RotR(x,11), RotR(x,25))
Ch(x,y,z) == XorW(AndW(x,y), AndW(NotW(x), z))
Maj(x,y,z) == Xor3(AndW(x,y), AndW(x,z), AndW(y,z))
RECURSIVE Sched(_,_)
Sched(w,t) == IF t > 64 THEN w ELSE Sched(Append(w, Add4(s1(w[t-2]), w[t-7], s0(w[t-15]), w[t-16])), t+1)
RECURSIVE Rounds(_,_,_)
Rounds(st, w, t) == IF t > 64 THEN st ELSE
   LET a == st[1] b == st[2] c == st[3] d == st[4] e == st[5] f == st[6] g == st[7] h == st[8]
       T1 == Add5(h, S1(e), Ch(e,f,g), K[t], w[t])
       T2 == Add2(S0(a), Maj(a,b,c))
   IN Rounds(<<Add2(T1,T2), a, b, c, Add2(d,T1), e, f, g>>, w, t+1)
Compress(hs, block) == \* block: 64 bytes (seq of 0..255)
   LET m == [i \in 1..16 |-> <<block[4*i-3]*256 + block[4*i-2], block[4*i-1]*256 + block[4*i]>>]
       w == Sched(m, 17)
       r == Rounds(hs, w, 1)
   IN << Add2(hs[1], r[1]), Add2(hs[2], r[2]), Add2(hs[3], r[3]), Add2(hs[4], r[4]), Add2(hs[5], r[5]), Add2(hs[6], r[6]), Add2(hs[7], r[7]), Add2(hs[8], r[8]) >>
Pad(msg) == LET n == Len(msg)
                z == (119 - n) % 64    \* zeros so that n+1+z+8 = 0 mod 64  -> z = (55 - n) mod 64
                bits == n*8
            IN msg \o <<128>> \o [i \in 1..((55 - n) % 64) |-> 0] \o <<0,0,0,0, (bits \div 16777216) % 256, (bits \div 65536) % 256, (bits \div 256) % 256, bits % 256>>
RECURSIVE Blocks(_,_,_)
Blocks(hh, p, j) == IF j > Len(p) THEN hh ELSE LET nh == Compress(hh, SubSeq(p, j, j+63)) IN Blocks(nh, p, j+64)
DigestDef(msg) == LET hs == Blocks(H0, Pad(msg), 1) IN
   [i \in 1..32 |-> LET wd == hs[(i-1) \div 4 + 1] k == (i-1) % 4 IN
        IF k = 0 THEN wd[1] \div 256 ELSE IF k = 1 THEN wd[1] % 256 ELSE IF k = 2 THEN wd[2] \div 256 ELSE wd[2] % 256]
Digest(msg) == DigestDef(msg)
\* FALSE by definition; the override class returns TRUE, so SelfTest can tell that the overrides are in force
OverridesLoaded == FALSE
====
