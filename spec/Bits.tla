---- MODULE Bits ----
(***************************************************************************)
(* Bytes <-> bit strings <-> naturals.  A bit string is a sequence over    *)
(* {0,1}, most significant bit first, exactly as BIP39 words it.           *)
(***************************************************************************)
EXTENDS Integers, Sequences, SequencesExt

Bits8(b)  == <<(b \div 128) % 2, (b \div 64) % 2, (b \div 32) % 2, (b \div 16) % 2,
               (b \div 8) % 2, (b \div 4) % 2, (b \div 2) % 2, b % 2>>
Bits11(n) == <<(n \div 1024) % 2, (n \div 512) % 2, (n \div 256) % 2, (n \div 128) % 2,
               (n \div 64) % 2, (n \div 32) % 2, (n \div 16) % 2, (n \div 8) % 2,
               (n \div 4) % 2, (n \div 2) % 2, n % 2>>
BytesToBits(bs) == FlattenSeq([i \in 1..Len(bs) |-> Bits8(bs[i])])

\* value of a short bit string (at most 30 bits: TLC integers are 32-bit)
RECURSIVE BitsToNat(_)
BitsToNat(bits) == IF bits = <<>> THEN 0 ELSE 2 * BitsToNat(Front(bits)) + Last(bits)

\* a bit string whose length is a multiple of 8, as bytes
BitsToBytes(b) == [i \in 1..(Len(b) \div 8) |-> BitsToNat(SubSeq(b, 8*i - 7, 8*i))]

IsByteSeq(s) == \A i \in 1..Len(s) : s[i] \in 0..255
====
