---- MODULE MC_Lifetime ----
(***************************************************************************)
(* Design-level model of buffer lifetime under a garbage collector with    *)
(* finalizers (C04, C05, C06, C07, C11): a call works on a byte buffer;    *)
(* "wipe the secret when it is garbage" ties a finalizer to a wrapper      *)
(* object around the buffer.  The collector may run at any step; an object *)
(* nothing refers to any more is finalized - and Go's liveness analysis    *)
(* lets a wrapper die as soon as its last use is behind, even while the    *)
(* slice taken out of it is still being read or written.                   *)
(*                                                                         *)
(* WipeImpl:                                                               *)
(*   "none"       the code: plain make([]byte, n), no finalizer            *)
(*   "keepalive"  wrapper + finalizer, runtime.KeepAlive(wrapper) after    *)
(*                the last use of the buffer, and results are copied out   *)
(*   "nokeep"     wrapper + finalizer, the bare slice is used on           *)
(*   "result"     the finalizer sits on the wrapper of the RESULT that is  *)
(*                handed to the caller                                     *)
(* The call: fill the buffer in K pieces (reads, or normalisation steps),  *)
(* encode it (one step reading all of it), return; the caller looks at     *)
(* the result again later.                                                 *)
(***************************************************************************)
EXTENDS Integers, Sequences, TLC
CONSTANTS K, WipeImpl
VARIABLES pc,         \* "fill" | "encode" | "returned" | "looked"
          filled,     \* pieces written so far
          buf,        \* K cells: 1 = the delivered byte, 0 = wiped / never written
          wrapperLive,\* the program still refers to the wrapper (TRUE while the analysis keeps it alive)
          finalized,  \* the finalizer has run
          result,     \* what the call returned (a copy of buf at encode time, or shared with it: "result")
          seen        \* what the caller sees when it looks at the result later
vars == <<pc, filled, buf, wrapperLive, finalized, result, seen>>

HasWrapper == WipeImpl # "none"
Init == /\ pc = "fill" /\ filled = 0 /\ buf = [i \in 1..K |-> 0]
        \* with "nokeep" the wrapper is dead right after the slice was taken out of it, i.e. from the start
        /\ wrapperLive = (WipeImpl = "keepalive")
        /\ finalized = FALSE /\ result = <<>> /\ seen = <<>>

Fill == /\ pc = "fill" /\ filled < K
        /\ buf' = [buf EXCEPT ![filled + 1] = 1] /\ filled' = filled + 1
        /\ UNCHANGED <<pc, wrapperLive, finalized, result, seen>>
Encode == /\ pc = "fill" /\ filled = K
          /\ result' = buf /\ pc' = "encode"
          /\ UNCHANGED <<filled, buf, wrapperLive, finalized, seen>>
\* return: KeepAlive was the wrapper's last use; for "result" the wrapper of the result dies here
Return == /\ pc = "encode" /\ pc' = "returned" /\ wrapperLive' = FALSE
          /\ UNCHANGED <<filled, buf, finalized, result, seen>>
\* a collection that completes: an unreachable wrapper is finalized, its buffer wiped
GC == /\ HasWrapper /\ ~wrapperLive /\ ~finalized
      /\ (WipeImpl = "result" => pc \in {"returned"})          \* that wrapper exists only once the result does
      /\ finalized' = TRUE
      /\ buf' = IF WipeImpl = "result" THEN buf ELSE [i \in 1..K |-> 0]
      /\ result' = IF WipeImpl = "result" THEN [i \in 1..K |-> 0] ELSE result
      /\ UNCHANGED <<pc, filled, wrapperLive, seen>>
Look == /\ pc = "returned" /\ seen' = result /\ pc' = "looked"
        /\ UNCHANGED <<filled, buf, wrapperLive, finalized, result>>
Next == Fill \/ Encode \/ Return \/ GC \/ Look
Spec == Init /\ [][Next]_vars

Ones == [i \in 1..K |-> 1]
\* C06 / C07 / C05: what is encoded is what was delivered
EncodesDelivered == pc \in {"encode", "returned", "looked"} /\ WipeImpl # "result" => result = Ones
\* C04 / C13: the result is still the result when the caller looks again
ResultStays == pc = "looked" => seen = Ones
====
