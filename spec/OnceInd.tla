---- MODULE OnceInd ----
(***************************************************************************)
(* C12, unbounded in time: the sync.Once protocol of lang.go (the control  *)
(* skeleton of MC_Once, without the vector clocks and without a bound on   *)
(* the number of calls) keeps an INDUCTIVE invariant that implies          *)
(*   - a lookup only ever reads a completely built map,                    *)
(*   - at most one goroutine is building a language's map,                 *)
(*   - the done flag is only set once the map is full.                     *)
(* Checked with Apalache (symbolic): Init => IndInv,                       *)
(* IndInv /\ Next => IndInv', IndInv => Safe; bin/check C12 thorough runs  *)
(* the three queries.  MC_Once (TLC) explores the same protocol with the   *)
(* Go memory model for a bounded number of calls.                          *)
(***************************************************************************)
EXTENDS Integers

CONSTANTS
    \* @type: Set(Str);
    G,
    \* @type: Set(Str);
    L,
    \* @type: Bool;
    Unsync      \* negative control: the fast path skips the test of the done flag (a nil-check style shortcut)

VARIABLES
    \* @type: Str -> Str;
    pc,
    \* @type: Str -> Str;
    lang,
    \* @type: Str -> Int;
    done,
    \* @type: Str -> Str;
    mu,
    \* @type: Str -> Str;
    mapv

CInit == G = {"g1", "g2", "g3"} /\ L = {"en", "fr", "ja"} /\ Unsync = FALSE
CInitUnsync == G = {"g1", "g2", "g3"} /\ L = {"en", "fr", "ja"} /\ Unsync = TRUE

PCs == {"idle", "fast", "lock", "slow", "alloc", "fill", "store", "unlock", "read"}
Holding == {"slow", "alloc", "fill", "store", "unlock"}

Init == /\ pc = [g \in G |-> "idle"] /\ lang \in [G -> L]
        /\ done = [l \in L |-> 0] /\ mu = [l \in L |-> "free"] /\ mapv = [l \in L |-> "nil"]

Start(g)  == pc[g] = "idle" /\ \E l \in L : lang' = [lang EXCEPT ![g] = l]
             /\ pc' = [pc EXCEPT ![g] = "fast"] /\ UNCHANGED <<done, mu, mapv>>
Fast(g)   == pc[g] = "fast" /\ pc' = [pc EXCEPT ![g] = IF done[lang[g]] = 1 \/ (Unsync /\ mapv[lang[g]] # "nil") THEN "read" ELSE "lock"]
             /\ UNCHANGED <<lang, done, mu, mapv>>
Lock(g)   == pc[g] = "lock" /\ mu[lang[g]] = "free" /\ mu' = [mu EXCEPT ![lang[g]] = g]
             /\ pc' = [pc EXCEPT ![g] = "slow"] /\ UNCHANGED <<lang, done, mapv>>
Slow(g)   == pc[g] = "slow" /\ pc' = [pc EXCEPT ![g] = IF done[lang[g]] = 1 THEN "unlock" ELSE "alloc"]
             /\ UNCHANGED <<lang, done, mu, mapv>>
Alloc(g)  == pc[g] = "alloc" /\ mapv' = [mapv EXCEPT ![lang[g]] = "partial"]
             /\ pc' = [pc EXCEPT ![g] = "fill"] /\ UNCHANGED <<lang, done, mu>>
Fill(g)   == pc[g] = "fill" /\ mapv' = [mapv EXCEPT ![lang[g]] = "full"]
             /\ pc' = [pc EXCEPT ![g] = "store"] /\ UNCHANGED <<lang, done, mu>>
Store(g)  == pc[g] = "store" /\ done' = [done EXCEPT ![lang[g]] = 1]
             /\ pc' = [pc EXCEPT ![g] = "unlock"] /\ UNCHANGED <<lang, mu, mapv>>
Unlock(g) == pc[g] = "unlock" /\ mu' = [mu EXCEPT ![lang[g]] = "free"]
             /\ pc' = [pc EXCEPT ![g] = "read"] /\ UNCHANGED <<lang, done, mapv>>
Read(g)   == pc[g] = "read" /\ pc' = [pc EXCEPT ![g] = "idle"] /\ UNCHANGED <<lang, done, mu, mapv>>
Next == \E g \in G : Start(g) \/ Fast(g) \/ Lock(g) \/ Slow(g) \/ Alloc(g) \/ Fill(g) \/ Store(g) \/ Unlock(g) \/ Read(g)

TypeOK == /\ pc \in [G -> PCs] /\ lang \in [G -> L] /\ done \in [L -> {0, 1}]
          /\ mu \in [L -> G \union {"free"}] /\ mapv \in [L -> {"nil", "partial", "full"}]

IndInv ==
    /\ TypeOK
    /\ \A l \in L : done[l] = 1 => mapv[l] = "full"
    /\ \A g \in G : pc[g] \in Holding => mu[lang[g]] = g
    /\ \A l \in L : mu[l] # "free" => pc[mu[l]] \in Holding /\ lang[mu[l]] = l
    /\ \A g \in G : /\ (pc[g] = "alloc" => done[lang[g]] = 0 /\ mapv[lang[g]] = "nil")
                    /\ (pc[g] = "fill" => done[lang[g]] = 0 /\ mapv[lang[g]] = "partial")
                    /\ (pc[g] = "store" => done[lang[g]] = 0 /\ mapv[lang[g]] = "full")
                    /\ (pc[g] = "unlock" => done[lang[g]] = 1)
                    /\ (pc[g] = "read" => done[lang[g]] = 1)
    /\ \A l \in L : /\ (mapv[l] = "partial" => \E g \in G : pc[g] = "fill" /\ lang[g] = l)
                    /\ (mapv[l] = "full" /\ done[l] = 0 => \E g \in G : pc[g] = "store" /\ lang[g] = l)
IndInit == IndInv

Safe == /\ \A g \in G : pc[g] = "read" => mapv[lang[g]] = "full"                         \* lookups see a full map
        /\ \A g, h \in G : pc[g] \in {"alloc", "fill", "store"} /\ pc[h] \in {"alloc", "fill", "store"}
                             /\ lang[g] = lang[h] => g = h                                \* built by at most one goroutine
        /\ \A l \in L : done[l] = 1 => mapv[l] = "full"
====
