---- MODULE Wordlists ----
(***************************************************************************)
(* The ten canonical BIP39 word lists, as data.  Language numbering is the *)
(* declaration order of the Go constants (0 = ChineseSimplified ...        *)
(* 9 = Portuguese).  A word is a sequence of code points.                  *)
(*                                                                         *)
(* data/wordlists.json is a snapshot; its provenance is part of the        *)
(* specification (ASSUME Provenance below): the SHA-256 of the text file   *)
(* "word LF word LF ... LF" rebuilt from each list equals the fingerprint  *)
(* of the canonical bitcoin/bips file (english.txt =                       *)
(* 2f5eed53a4727b4bf8880d8f3f199efc90e58503646d9ff8eff3a2ed3b24dbda).      *)
(***************************************************************************)
EXTENDS Integers, Sequences, SequencesExt, FiniteSets, Json, TLC
LOCAL INSTANCE Unicode
LOCAL U8 == INSTANCE UTF8
LOCAL S256 == INSTANCE SHA256

Golden == JsonDeserialize("wordlists.json")
Langs == 0..9
IsSupported(l) == l \in Langs
List(l) == Golden.lists[l + 1]
FileName(l) == Golden.files[l + 1]
VarName(l)  == Golden.vars[l + 1]

(* IndexOf(seq, x): position of the first occurrence of x in seq, 0 if    *)
(* absent.  IndexOfDef is the definition; IndexOf carries a TLC override   *)
(* (a hash index) because it dominates the cost of validating sentences.   *)
IndexOfDef(seq, x) == IF \E i \in 1..Len(seq) : seq[i] = x
                      THEN CHOOSE i \in 1..Len(seq) : seq[i] = x /\ \A j \in 1..(i - 1) : seq[j] # x
                      ELSE 0
IndexOf(seq, x) == IndexOfDef(seq, x)

\* index (0..2047) of a word in a language's list, -1 if it is not a list word
WordIndex(l, w) == IndexOf(List(l), w) - 1

------------------------------------------------------------------------------
\* Well-formedness of the data (property C08's fixed part)
HexDigit(c) == IF c \in 48..57 THEN c - 48 ELSE c - 87
\* "ab12.." as a tuple of code points -> bytes
HexBytes(h) == [i \in 1..(Len(h) \div 2) |-> 16 * HexDigit(h[2*i - 1]) + HexDigit(h[2*i])]
FileText(l) == FlattenSeq([i \in 1..2048 |-> U8!Encode(List(l)[i]) \o <<10>>])

ListWellFormed(l) ==
    LET L == List(l) IN
    /\ Len(L) = 2048
    /\ \A i \in 1..2048 : /\ L[i] # <<>>
                          /\ \A k \in 1..Len(L[i]) : L[i][k] >= 0 /\ ~IsWhiteSpace(L[i][k])
                          /\ NFKD(L[i]) = L[i]
    /\ \A i \in 1..2048 : IndexOf(L, L[i]) = i          \* pairwise distinct

Provenance(l) == S256!Digest(FileText(l)) = HexBytes(Golden.sha256cp[l + 1])

EnglishFingerprint ==
    Golden.sha256cp[3] = <<50,102,53,101,101,100,53,51,97,52,55,50,55,98,52,98,102,56,56,56,48,100,56,102,51,102,49,57,57,101,102,99,
                           57,48,101,53,56,53,48,51,54,52,54,100,57,102,102,56,101,102,102,51,97,50,101,100,51,98,50,52,100,98,100,97>>
====
