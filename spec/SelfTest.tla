---- MODULE SelfTest ----
(***************************************************************************)
(* override == definition.  SHA256!Digest, SHA512!Digest, HMAC!HmacSha512, *)
(* PBKDF2!Derive and Wordlists!IndexOf are evaluated by Java overrides     *)
(* (overrides/verif/Prims.java); their TLA+ definitions are *Def.  Every   *)
(* run of a check evaluates both on a seeded sample and requires equality; *)
(* a mismatch is an infrastructure error, never a verdict.  The sample     *)
(* covers the structural cases of each definition: empty message, one and  *)
(* several blocks, padding boundaries (55/56/64 and 111/112/128 bytes),    *)
(* HMAC keys shorter than, equal to and longer than the block, the empty   *)
(* key, PBKDF2 iteration counts 1..3 and a two-block output, list words    *)
(* and non-words.                                                          *)
(***************************************************************************)
EXTENDS BIP39Def, TLC
CONSTANTS Seed0, N256, N512
VARIABLE node
Msg(k, len) == [j \in 1..len |-> (k * 131 + j * 7 + Seed0 + ((j * j) % 251)) % 256]
Len256(k) == IF k <= 12 THEN <<0, 1, 3, 55, 56, 57, 63, 64, 65, 119, 120, 128>>[k] ELSE (k * 37 + Seed0) % 200
Len512(k) == IF k <= 8 THEN <<0, 1, 111, 112, 113, 127, 128, 129>>[k] ELSE (k * 53 + Seed0) % 300
H == INSTANCE HMAC
Init == node = <<"root">>
Next == \/ node = <<"root">> /\ \E kind \in {"sha256", "sha512", "hmac", "kdf", "index"}, b \in 0..15 : node' = <<kind, b>>
        \/ Len(node) = 2 /\ \E k \in 1..400 : k % 16 = node[2] /\ node' = <<node[1], node[2], k>>
Spec == Init /\ [][Next]_node
OverridesActive == S256!OverridesLoaded          \* otherwise the comparisons below compare the definitions with themselves
IsCase == Len(node) = 3
K == node[3]
Sha256Agrees == IsCase /\ node[1] = "sha256" /\ K <= N256 =>
                    LET m == Msg(K, Len256(K)) IN S256!Digest(m) = S256!DigestDef(m)
Sha512Agrees == IsCase /\ node[1] = "sha512" /\ K <= N512 =>
                    LET m == Msg(K, Len512(K)) IN H!S512!Digest(m) = H!S512!DigestDef(m)
HmacAgrees   == IsCase /\ node[1] = "hmac" /\ K <= 40 =>
                    LET key == Msg(K, <<0, 1, 64, 127, 128, 129, 200, 12>>[(K % 8) + 1])  m == Msg(K + 1, (K * 29) % 180)
                    IN H!HmacSha512(key, m) = H!HmacSha512Def(key, m)
KdfAgrees    == IsCase /\ node[1] = "kdf" /\ K <= 24 =>
                    LET pw == Msg(K, <<0, 1, 40, 129, 200, 12>>[(K % 6) + 1])  salt == Msg(K + 2, 8 + (K % 5) * 30)
                        c == (K % 3) + 1  dk == IF K % 4 = 0 THEN 100 ELSE 64
                    IN KDF!Derive(pw, salt, c, dk) = KDF!DeriveDef(pw, salt, c, dk)
IndexAgrees  == IsCase /\ node[1] = "index" /\ K <= 200 =>
                    LET l == K % 10  w == IF K % 5 = 0 THEN <<122, 122, K>> ELSE List(l)[((K * 97) % 2048) + 1]
                    IN IndexOf(List(l), w) = IndexOfDef(List(l), w)
====
