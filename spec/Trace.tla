---- MODULE Trace ----
(***************************************************************************)
(* Trace validation: replays a file of events recorded from the real Go    *)
(* package (harness/, NDJSON, DESIGN.md appendix A) through the Layer S    *)
(* actions of BIP39Proc and evaluates, at the step that consumes event e,  *)
(* one named predicate per property against the native Layer D operators.  *)
(*                                                                         *)
(* The library is deterministic, so acceptance is monitor-style: the step  *)
(* always advances (one bad event does not hide the rest of the trace),    *)
(* failing <<line, property>> pairs are collected in `bad`, and the step   *)
(* consuming the last line prints one <<"VERDICT", ...>> line which the    *)
(* driver parses.  Fewer consumed lines than the file has = infrastructure *)
(* error, never a verdict.                                                 *)
(***************************************************************************)
EXTENDS BIP39Proc, Json, TLC

CONSTANT Props            \* the property ids to decide on this trace, e.g. {"C01", "C05"}

TraceLog == ndJsonDeserialize("trace.ndjson")
N == Len(TraceLog)

VARIABLES
    l,          \* next line to consume
    bad,        \* set of <<line, property>>: the event violates the property
    known,      \* set of <<line, property, finding>>: wrong in exactly the way a known finding says
    drift,      \* set of <<line, what>>: the code differs from Layer I/S where no property speaks
    infra,      \* set of <<line, what>>: the harness produced something the check cannot use
    nbad,       \* total number of failing pairs (bad keeps the first 20)
    memo,       \* argid -> first observed result (history independence, C13)
    grp,        \* current equivalence group: [id, form, verdict] (C10, C11)
    cover,      \* per language: set of list indices seen emitted (C08)
    osOuts,     \* outputs NewMnemonic has returned on the default source in this process (C07)
    cnt         \* counters reported in the verdict line
vars == <<l, bad, known, drift, infra, nbad, memo, grp, cover, osOuts, cnt, procVars>>

NoGroup == [id |-> -1, form |-> <<>>, res |-> <<>>]
TraceInit ==
    /\ ProcInit
    /\ l = 1 /\ bad = {} /\ known = {} /\ drift = {} /\ infra = {} /\ nbad = 0
    /\ osOuts = {} /\ memo = <<>> /\ grp = NoGroup /\ cover = [x \in Langs |-> {}]
    /\ cnt = [events |-> 0, nontrivial |-> 0]

------------------------------------------------------------------------------
\* helpers over one event
NoCrash(e) == ~e.panicked /\ ~e.timeout
Has(e, f) == f \in DOMAIN e
ErrKind(r) == IF r.nil THEN "nil" ELSE IF r.wordlen THEN "wordlen" ELSE IF r.entlen THEN "entlen"
              ELSE IF r.checksum THEN "checksum" ELSE "other"
HasInfix(s, t) == \E i \in 1..(Len(s) - Len(t) + 1) : SubSeq(s, i, i + Len(t) - 1) = t
BigOK(n) == n.fits /\ WordCountOK(n.v)

ValidEnc(e) == e.op = "ByEntropy" /\ EntLenOK(e.ent_len) /\ IsSupported(e.lang)

------------------------------------------------------------------------------
\* One predicate per property.  Each is TRUE on events it does not speak about.

Inv_C01(e) == /\ (ValidEnc(e) => NoCrash(e) /\ e.err.nil /\ e.out = Mnemonic(e.ent, e.lang))
              \* ... and stays that sentence: the harness re-inspects retained results after later calls
              /\ (e.op = "Recheck" /\ e.kind = "string" => e.same)
              /\ e.op # "Crash"               \* the process died inside the library while entropies were being encoded
              \* the lists the sentences are made of survive `make update-wordlist` on the canonical upstream
              /\ (e.op = "Gen" /\ Has(e, "golden") /\ e.golden => e.compiles /\ e.words = List(e.lang) /\ e.words = e.committed)

Inv_C05(e) ==
    /\ ValidEnc(e) =>
            LET toks == Tokens(e.out) IN
            /\ e.err.nil /\ Len(toks) = WordCount(e.ent) /\ AllKnown(toks, e.lang)
            /\ EntropyOfTokens(toks, e.lang) = e.ent
    \* ... and the sentence handed out keeps decoding to that entropy: it is still the same text after later calls
    /\ (e.op = "Recheck" /\ e.kind = "string" => e.same)
    /\ e.op # "Crash"

\* words emitted are the golden list's words at the indices the bits select
Inv_C08(e) ==
    CASE e.op = "ByEntropy" -> (ValidEnc(e) =>
            LET toks == Tokens(e.out)  idx == Indices(e.ent) IN
            /\ Len(toks) = Len(idx)
            /\ \A i \in 1..Len(idx) : toks[i] = List(e.lang)[idx[i] + 1])
      [] e.op = "Check" -> (IsSupported(e.lang) /\ CanonicalForm(e.in) =>
            (e.err.nil <=> Canonical(e.in, e.lang)))
      [] e.op = "ListSource" ->
            /\ e.words = List(e.lang) /\ e.file = Golden.filescp[e.lang + 1] /\ e.var = Golden.varscp[e.lang + 1]
      [] e.op = "Crash" -> FALSE          \* the process died inside the library while list words were being validated
      [] e.op = "Gen" -> (Has(e, "golden") /\ e.golden =>       \* regenerated from the canonical upstream, the lists stay canonical
            e.compiles /\ e.words = List(e.lang) /\ e.words = e.committed /\ e.var = Golden.varscp[e.lang + 1])
      [] OTHER -> TRUE

SweepPredicted(e) ==        \* indices of the last words that complete prefix e.prefix to a valid sentence
    IF ~WordCountOK(Len(e.prefix) + 1) THEN {} ELSE        \* no word completes a sentence of another length
    LET n == Len(e.prefix) + 1  cs == n \div 3  tb == 11 - cs
        pbits == FlattenSeq([i \in 1..(n - 1) |-> Bits11(e.prefix[i])])
    IN { t * (2^cs) + BitsToNat(Checksum(BitsToBytes(pbits \o SubSeq(Bits11(t * (2^cs)), 1, tb)))) : t \in 0..(2^tb - 1) }

Inv_C02(e) ==
    CASE e.op = "Check" -> /\ (IsSupported(e.lang) /\ Canonical(e.in, e.lang) => NoCrash(e) /\ e.err.nil /\ e.valid)
                           \* whatever a generator returned with a nil error (under a supported language) must validate
                           /\ (Has(e, "gen") /\ e.gen /\ IsSupported(e.lang) => NoCrash(e) /\ e.err.nil /\ e.valid)
      [] e.op = "Sweep" -> SweepPredicted(e) \subseteq {e.accepted[i] : i \in 1..Len(e.accepted)}
      [] e.op = "Crash" -> FALSE          \* the process died inside the library while valid sentences were being validated
      [] OTHER -> TRUE

Inv_C03(e) ==
    CASE e.op = "Check" -> /\ (e.valid <=> e.err.nil)
                           /\ (IsSupported(e.lang) /\ e.err.nil => WellFormed(e.in, e.lang))
      [] e.op = "Sweep" -> {e.accepted[i] : i \in 1..Len(e.accepted)} \subseteq SweepPredicted(e)
      [] OTHER -> TRUE

Inv_C15(e) ==
    e.op = "Check" /\ IsSupported(e.lang) /\ CanonicalForm(e.in) =>
        LET d == Defects(e.in, e.lang) IN
        /\ (d = {"count"} => e.err.wordlen)
        /\ (d = {"checksum"} => e.err.checksum)
        /\ ("count" \notin d /\ "word" \in d =>
                /\ ~e.err.nil /\ ~e.err.wordlen /\ ~e.err.checksum /\ ~e.err.entlen
                /\ \E t \in UnknownTokens(e.in, e.lang) : HasInfix(e.err.msg, t))
        /\ (d # {} => ~e.err.nil)
        /\ (e.err.nil => d = {})
InvE_C15(e) == Has(e, "echo_same") => e.echo_same        \* the same call, made again after other calls, says the same (verdict and error text)
InvN_C15(e) == e.op = "Check" /\ IsSupported(e.lang) /\ e.err.nil => WellFormed(e.in, e.lang)     \* nil only for valid sentences, whatever the spelling
InvS_C15(e) == e.op = "Sweep" =>                \* a nil error only for valid sentences: of 2048 last words exactly the predicted ones
    {e.accepted[i] : i \in 1..Len(e.accepted)} \subseteq SweepPredicted(e)
InvR_C15(e) == e.op = "Recheck" /\ e.kind = "error" => e.same        \* ... and an error keeps saying what it said when it was returned

Inv_C09(e) ==
    CASE e.op = "ByEntropy" ->
            /\ (e.err.nil <=> EntLenOK(e.ent_len))
            /\ (e.err.nil => e.out # <<>>)
            /\ (~e.err.nil => e.out = <<>> /\ e.err.entlen)
      [] e.op = "Read" -> pc = "reading"                      \* a rejected count consumes nothing
      [] e.op = "Crash" -> FALSE                              \* the process died inside the library on an extreme size
      [] e.op = "NewMnemonic" ->
            IF ~BigOK(e.n) THEN e.out = <<>> /\ e.err.wordlen /\ delivered = <<>>
            ELSE /\ (ReadFullOK => e.err.nil /\ e.out # <<>>) /\ (e.err.nil => e.out # <<>>) /\ (~e.err.nil => e.out = <<>>)
                 /\ (source # "os" /\ ~e.err.nil => lastErr # "")      \* "given a working source": it fails only if the source did
      [] OTHER -> TRUE

\* calls that overlapped in time on one injected source: the harness's source attributes to each call the bytes
\* its own reads delivered (e.delivered)
AttributedOK(e) ==
    LET nd == e.n.v + e.n.v \div 3 IN
    IF Len(e.delivered) >= nd
    THEN e.err.nil /\ (IsSupported(e.lang) => e.out = Mnemonic(SubSeq(e.delivered, 1, nd), e.lang))
    ELSE e.out = <<>> /\ ~e.err.nil
Inv_C06(e) ==
    IF e.op = "SourceCheck" THEN e.same ELSE
    IF e.op = "NewMnemonic" /\ Has(e, "delivered") THEN NoCrash(e) /\ (BigOK(e.n) => AttributedOK(e)) ELSE
    e.op = "NewMnemonic" /\ BigOK(e.n) /\ source # "os" =>
        IF ReadFullOK
        THEN lastErr = "" => /\ e.err.nil
                             /\ IsSupported(e.lang) => /\ e.out = Mnemonic(SubSeq(delivered, 1, need), e.lang)
                                                       /\ Len(Tokens(e.out)) = e.n.v
        ELSE /\ e.out = <<>> /\ ~e.err.nil
             /\ lastErr # ""                                  \* it may not give up on a source that has not failed

Inv_C07(e) ==
    CASE e.op = "Swap" -> (source = "os" => e.prev_is_os)
      [] e.op = "SourceCheck" -> e.same                   \* nothing but SwapSource changes the source (here: the one the harness installed)
      [] e.op = "ByEntropy" -> (Has(e, "conc") /\ ValidEnc(e) => e.err.nil /\ e.out = Mnemonic(e.ent, e.lang))   \* imports do not touch the source
      [] e.op = "NewMnemonic" /\ Has(e, "delivered") ->      \* overlapping calls: each output is made of the bytes delivered to that call
            (e.err.nil /\ BigOK(e.n) /\ IsSupported(e.lang) =>
                LET nd == e.n.v + e.n.v \div 3 IN Len(e.delivered) >= nd /\ e.out = Mnemonic(SubSeq(e.delivered, 1, nd), e.lang))
      [] e.op = "NewMnemonic" /\ source # "os" ->             \* whatever the source: the output is made of the source's bytes only
            (e.err.nil /\ BigOK(e.n) /\ IsSupported(e.lang) => ReadFullOK /\ e.out = Mnemonic(SubSeq(delivered, 1, need), e.lang))
      [] e.op = "NewMnemonic" -> (source = "os" /\ BigOK(e.n) /\ IsSupported(e.lang) =>
                /\ e.err.nil /\ Canonical(e.out, e.lang) /\ Len(Tokens(e.out)) = e.n.v
                /\ e.out \notin osOuts                                        \* fresh output on every call
                /\ (Has(e, "os_observed") /\ e.os_observed =>               \* what the kernel delivered explains the output
                        Len(delivered) = need /\ e.out = Mnemonic(delivered, e.lang)))
      [] e.op = "OSOther" -> FALSE                           \* something else was read between the markers
      [] OTHER -> TRUE

Inv_C14(e) == Has(e, "panicked") => NoCrash(e)

Inv_C16(e) == /\ (e.op = "String" => NoCrash(e) /\ e.out = LangNameOf(e.n.neg, e.n.digits))
              /\ (e.op = "Recheck" /\ e.kind = "string" => e.same)        \* a name handed out keeps reading as that name

SeedOK(e)  == /\ e.seed = Seed(e.m, e.p) /\ e.len = 64 /\ ~e.aliased
              /\ (e.alias_checked => e.seed2 = e.seed /\ (Has(e, "seed3") => e.seed3 = e.seed))   \* derived again, also after the caller wiped the first result
\* (the stream-safe model is evaluated on texts of moderate size only - the probes for F3 are short; on a longer text
\* a deviation is a violation, not a known finding: the harness puts no run of more than 25 non-starters into those)
F3Sized(e) == Len(e.m) + Len(e.p) <= 6000
SeedF3(e)  == F3Sized(e) /\ HasLongRun(e.m, e.p) /\ e.seed = StreamSafeSeed(e.m, e.p) /\ e.len = 64 /\ ~e.aliased
Inv_C04(e) == /\ (e.op = "ToSeed" => NoCrash(e) /\ (SeedOK(e) \/ SeedF3(e)))
              /\ (e.op = "Recheck" /\ e.kind = "seed" => e.same)       \* ... and it is still that value when the caller looks again
KF_C04(e)  == e.op = "ToSeed" /\ ~SeedOK(e) /\ SeedF3(e)

\* C10 / C11: events of one group are consecutive, carry the same group id,
\* and must have equal NFKD forms (established here, with the spec's NFKD)
InGroup(e) == Has(e, "group") /\ e.group = grp.id
FormOf(e) == IF e.op = "Check" THEN <<NFKD(e.in), e.lang>> ELSE <<NFKD(e.m), NFKD(e.p)>>
GroupInfra(e) == Has(e, "group") /\ InGroup(e) /\ FormOf(e) # grp.form
Inv_C10(e) == /\ (e.op = "Check" /\ InGroup(e) /\ FormOf(e) = grp.form => (e.err.nil <=> grp.res))
              \* "in particular every valid mnemonic is accepted in each of these spellings"
              /\ (e.op = "Check" /\ Has(e, "group") /\ IsSupported(e.lang) /\ Canonical(e.in, e.lang) => e.err.nil)
F3Group(e) == F3Sized(e) /\ HasLongRun(e.m, e.p)
Inv_C11(e) == /\ (e.op = "ToSeed" /\ InGroup(e) /\ FormOf(e) = grp.form =>
                  (e.seed = grp.res \/ (F3Group(e) /\ e.seed = StreamSafeSeed(e.m, e.p))))
              /\ (e.op = "Recheck" /\ e.kind = "seed" => e.same)       \* equal seeds stay equal: none changes after it was handed out
KF_C11(e)  == e.op = "ToSeed" /\ InGroup(e) /\ FormOf(e) = grp.form /\ e.seed # grp.res
                  /\ F3Group(e) /\ e.seed = StreamSafeSeed(e.m, e.p)

\* C13: the same arguments give the same result in every history; nothing is mutated
ResultOf(e) ==
    CASE e.op = "ByEntropy" -> <<e.out, ErrKind(e.err), e.err.msg>>
      [] e.op = "Check" -> <<e.valid, ErrKind(e.err), e.err.msg>>
      [] e.op = "ToSeed" -> <<e.seed>>
      [] e.op = "String" -> <<e.out>>
      [] e.op = "NewMnemonic" -> <<e.out, ErrKind(e.err), e.err.msg>>
      [] OTHER -> <<>>
ArgsOf(e) ==
    CASE e.op = "ByEntropy" -> <<e.op, e.ent, e.ent_len, e.ent_nil, e.lang>>
      [] e.op = "Check" -> <<e.op, e.in, e.lang>>
      [] e.op = "ToSeed" -> <<e.op, e.m, e.p>>
      [] e.op = "String" -> <<e.op, e.n.neg, e.n.digits>>
      [] e.op = "NewMnemonic" -> <<e.op, e.n.neg, e.n.digits, e.lang, delivered>>
      [] OTHER -> <<>>
\* results are remembered per argument identity; for generation the bytes drawn are part of the identity
MemoId(e) == <<e.argid, IF e.op = "NewMnemonic" THEN delivered ELSE <<>> >>
MemoKey(e) == Has(e, "argid") /\ MemoId(e) \in DOMAIN memo
Inv_C13(e) ==
    /\ (e.op = "ByEntropy" => e.ent_same)
    /\ (Has(e, "in_same") => e.in_same)                      \* argument strings are not written through
    /\ (e.op = "Recheck" => e.same)
    /\ (Has(e, "echo_same") => e.echo_same)
    /\ (e.op = "Buf" => e.before = e.after)
    \* seeds handed out by separate calls share no storage, and what a caller does to its seed (wiping it) does not
    \* change what the next call with the same arguments returns
    /\ (e.op = "ToSeed" => ~e.aliased /\ (e.alias_checked => e.seed2 = e.seed /\ (Has(e, "seed3") => e.seed3 = e.seed)))
    /\ (MemoKey(e) /\ memo[MemoId(e)][1] = ArgsOf(e) => memo[MemoId(e)][2] = ResultOf(e))
    \* and the result is the one the arguments determine
    /\ (ValidEnc(e) => e.out = Mnemonic(e.ent, e.lang))
    /\ (e.op = "ByEntropy" /\ ~EntLenOK(e.ent_len) => ~e.err.nil)
    /\ (e.op = "Check" /\ IsSupported(e.lang) /\ CanonicalForm(e.in) => (e.err.nil <=> Canonical(e.in, e.lang)))
    /\ (e.op = "String" => e.out = LangNameOf(e.n.neg, e.n.digits))
    /\ (e.op = "NewMnemonic" /\ BigOK(e.n) /\ IsSupported(e.lang) /\ ReadFullOK /\ lastErr = "" =>
            e.out = Mnemonic(SubSeq(delivered, 1, need), e.lang))

\* C12: concurrent runs.  Results are functions of the arguments, so every call that returned in a
\* concurrent run is validated like a sequential one, and against the first result recorded for the
\* same arguments (the harness repeats every distinct call alone after the join); the process ran
\* under the Go race detector, whose report is the last event.
IsConc(e) == Has(e, "conc") /\ e.conc
Inv_C12(e) ==
    CASE e.op = "RaceReport" -> e.n = 0
      [] e.op = "SourceCheck" -> e.same
      [] IsConc(e) /\ e.op = "NewMnemonic" /\ Has(e, "delivered") -> NoCrash(e) /\ (BigOK(e.n) => AttributedOK(e))
      [] IsConc(e) /\ e.op = "NewMnemonic" ->
            /\ NoCrash(e)
            /\ (BigOK(e.n) /\ IsSupported(e.lang) => e.err.nil /\ Canonical(e.out, e.lang) /\ Len(Tokens(e.out)) = e.n.v)
            /\ (~BigOK(e.n) => e.out = <<>> /\ e.err.wordlen)
      [] IsConc(e) -> /\ (Has(e, "panicked") => NoCrash(e)) /\ Inv_C13(e)
                      /\ (e.op = "ToSeed" => SeedOK(e) \/ SeedF3(e))             \* a seed derived while others derive theirs
                      /\ (Has(e, "group") => Inv_C10(e) /\ Inv_C11(e))
      [] OTHER -> TRUE

\* C17: the generator's output is the non-empty LF-separated lines of its input
IsLF(u) == u = 10
GenExpected(input) == SelectSeq(SplitBy(input, IsLF), LAMBDA w : w # <<>>)
Inv_C17(e) == e.op = "Gen" => /\ e.compiles /\ e.words = GenExpected(e.input)
                              /\ e.var = Golden.varscp[e.lang + 1] /\ e.file = Golden.filescp[e.lang + 1]
                              /\ (Has(e, "golden") /\ e.golden => e.words = List(e.lang) /\ e.words = e.committed)

\* Tool qualification (not a property of the package): the specification's NFKD (CPython data) against
\* golang.org/x/text on probe strings, and the specification's model of x/text's stream-safe insertion
Inv_XNFKD(e) == e.op = "NFKDProbe" => /\ StreamSafeNFKD(e.in) = e.xtext
                                       /\ (~StreamSafeDiffers(e.in) => NFKD(e.in) = e.xtext)
                                       /\ (MaxNonStarterRun(e.in) <= 25 => ~StreamSafeDiffers(e.in))   \* the generators' bound is safe

Holds(p, e) ==
    CASE p = "C01" -> Inv_C01(e) [] p = "C02" -> Inv_C02(e) [] p = "C03" -> Inv_C03(e)
      [] p = "C04" -> Inv_C04(e) [] p = "C05" -> Inv_C05(e) [] p = "C06" -> Inv_C06(e)
      [] p = "C07" -> Inv_C07(e) [] p = "C08" -> Inv_C08(e) [] p = "C09" -> Inv_C09(e)
      [] p = "C10" -> Inv_C10(e) [] p = "C11" -> Inv_C11(e) [] p = "C13" -> Inv_C13(e)
      [] p = "C14" -> Inv_C14(e) [] p = "C15" -> Inv_C15(e) /\ InvR_C15(e) /\ InvS_C15(e) /\ InvN_C15(e) /\ InvE_C15(e) [] p = "C16" -> Inv_C16(e)
      [] p = "C17" -> Inv_C17(e) [] p = "C12" -> Inv_C12(e) [] p = "XNFKD" -> Inv_XNFKD(e) [] OTHER -> TRUE
KnownF(p, e) == (p = "C04" /\ KF_C04(e)) \/ (p = "C11" /\ KF_C11(e))

------------------------------------------------------------------------------
\* Layer I / S detail that no property demands: reported as drift
Drift(e) ==
    (IF e.op = "ByEntropy" /\ NoCrash(e) /\ e.ent_len <= 64
        THEN LET r == ResByEntropy(e.ent_len, e.ent, e.lang) IN
             IF r.out = e.out /\ r.err = ErrKind(e.err) THEN {} ELSE {<<l, "ByEntropy result differs from Layer I">>}
        ELSE {})
    \cup (IF e.op = "Check" /\ NoCrash(e)
        THEN LET v == ImplVerdict(e.in, e.lang)  k == ErrKind(e.err) IN
             IF (v = "word" /\ k = "other") \/ (v # "word" /\ v = k) THEN {} ELSE {<<l, "Check error kind differs from Layer I">>}
        ELSE {})
    \cup (IF e.op = "MapLens" /\ \E x \in Langs : e.lens[x + 1] # (IF mapv[x] = "full" THEN 2048 ELSE 0)
        THEN {<<l, "map sizes differ from Layer S">>} ELSE {})
    \cup (IF e.op = "Read" /\ pc = "reading" /\ source # "bufio" /\ e.asked # need - Len(delivered)
        THEN {<<l, "Read asked for a different number of bytes than io.ReadFull would">>} ELSE {})
    \cup (IF e.op = "NewMnemonic" /\ BigOK(e.n) /\ ReadFullOK /\ lastErr # "" /\ ~e.err.nil
        THEN {<<l, "failure although the final fragment completed the buffer">>} ELSE {})
    \cup (IF e.op = "NewMnemonic" /\ Has(e, "errid") /\ pc = "reading" /\ ~ReadFullOK /\ lastErr # ""
           /\ e.errid # (IF lastErr = "EOF" /\ Len(delivered) > 0 THEN "UEOF" ELSE lastErr)      \* io.ReadFull's rewriting of EOF
        THEN {<<l, "a failed read surfaces as a different error than io.ReadFull would return">>} ELSE {})
    \cup (IF e.op = "Swap" /\ source # "os" /\ e.prev_is_os THEN {<<l, "previous source reported as os">>} ELSE {})

------------------------------------------------------------------------------
\* The Layer S step an event stands for
ProcStep(e) ==
    CASE e.op = "Reset" -> Restart
      [] IsConc(e) /\ e.op # "Check" -> UNCHANGED procVars              \* concurrent calls on the default source overlap
      [] e.op = "Cut" -> /\ source' = e.source /\ UNCHANGED <<mapv, callVars>>      \* shard boundary: the harness names the source it installed
      [] e.op = "Check" -> IF Idle THEN CallCheck(e.in, e.lang) ELSE UNCHANGED procVars
      [] e.op = "Swap" -> IF Idle THEN SwapSource(e.new) ELSE UNCHANGED procVars
      [] e.op = "NewMnemonicCall" -> IF Idle THEN CallNewMnemonic(BigOK(e.n), IF e.n.fits THEN e.n.v ELSE 0, e.lang)
                                     ELSE UNCHANGED procVars
      [] e.op \in {"Read", "OSRandom"} -> IF Guard_ReadStep THEN ReadStep(e.bytes, IF e.op = "Read" THEN e.errkind ELSE "")
                                          ELSE UNCHANGED procVars
      [] e.op \in {"NewMnemonic", "NewMnemonicAborted"} ->      \* (aborted: the source panicked and the caller recovered)
            IF pc \in {"reading", "rejected"} THEN ReturnNewMnemonic ELSE UNCHANGED procVars
      [] OTHER -> UNCHANGED procVars

ProtocolBreak(e) ==
    IF IsConc(e) THEN {} ELSE
    (IF e.op \in {"Check", "Swap", "NewMnemonicCall", "ByEntropy", "ToSeed", "String"} /\ ~Idle THEN {<<l, "call while another is in flight">>} ELSE {})
    \cup (IF e.op = "NewMnemonic" /\ pc = "idle" THEN {<<l, "return without call">>} ELSE {})

IsCall(e) == e.op \in {"RaceReport", "Crash", "SourceCheck", "NFKDProbe", "ByEntropy", "Check", "ToSeed", "String", "NewMnemonic", "Sweep", "Gen", "ListSource", "Swap", "Read", "OSRandom",
                       "Recheck", "Buf", "CheckHuge", "ToSeedHuge"}

Step ==
    /\ l <= N
    /\ LET e == TraceLog[l]
           \* (a process that died inside the library while a property's calls were being made fails that property)
           fails == {p \in Props : ~Holds(p, e) \/ (e.op = "Crash" /\ p # "DRIFT")}
           kf == {p \in Props : KnownF(p, e)}
       IN /\ ProcStep(e)
          /\ bad' = IF Cardinality(bad) < 20 THEN bad \cup {<<l, p>> : p \in fails} ELSE bad
          /\ nbad' = nbad + Cardinality(fails)
          /\ known' = IF Cardinality(known) < 20 THEN known \cup {<<l, p>> : p \in kf} ELSE known
          /\ drift' = IF "DRIFT" \in Props /\ Cardinality(drift) < 10 THEN drift \cup Drift(e) ELSE drift
          /\ infra' = IF Cardinality(infra) < 10
                      THEN infra \cup ProtocolBreak(e) \cup (IF GroupInfra(e) THEN {<<l, "group members are not NFKD-equivalent">>} ELSE {})
                      ELSE infra
          /\ memo' = IF Has(e, "argid") /\ MemoId(e) \notin DOMAIN memo
                     THEN memo @@ (MemoId(e) :> <<ArgsOf(e), ResultOf(e)>>) ELSE IF e.op = "Reset" THEN <<>> ELSE memo
          /\ grp' = IF Has(e, "group") THEN (IF InGroup(e) THEN grp
                                              ELSE [id |-> e.group, form |-> FormOf(e),
                                                    res |-> IF e.op = "Check" THEN e.err.nil ELSE e.seed])
                    ELSE grp
          /\ cover' = IF "C08" \in Props /\ ValidEnc(e)
                      THEN LET ix == Indices(e.ent) IN [cover EXCEPT ![e.lang] = @ \cup {ix[i] : i \in 1..Len(ix)}]
                      ELSE cover
          /\ osOuts' = IF e.op = "Reset" THEN {} ELSE IF e.op = "NewMnemonic" /\ source = "os" /\ e.err.nil THEN osOuts \cup {e.out} ELSE osOuts
          /\ cnt' = [events |-> cnt.events + (IF IsCall(e) THEN 1 ELSE 0), nontrivial |-> cnt.nontrivial]
          /\ l' = l + 1
          /\ (l = N => PrintT(<<"VERDICT", ToJson([lines |-> l, nbad |-> nbad', bad |-> bad', known |-> known',
                                                    drift |-> drift', infra |-> infra',
                                                    cover |-> [x \in Langs |-> SetToSeq(cover'[x])], cnt |-> cnt'])>>))

TraceSpec == TraceInit /\ [][Step]_vars
====
