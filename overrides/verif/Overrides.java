package verif;
import tlc2.overrides.ITLCOverrides;
public class Overrides implements ITLCOverrides {
  @SuppressWarnings("rawtypes")
  public Class[] get() { return new Class[] { Prims.class }; }
}
