package verif;

import java.security.MessageDigest;
import tlc2.overrides.TLAPlusOperator;
import tlc2.value.impl.IntValue;
import tlc2.value.impl.TupleValue;
import tlc2.value.impl.Value;

/**
 * Fast evaluators for operators whose TLA+ definitions are the specification
 * (spec/SHA256.tla, SHA512.tla, HMAC.tla, PBKDF2.tla, Wordlists.tla).  Every
 * overridden operator X is defined in TLA+ as X == XDef(..); SelfTest.tla
 * compares X with XDef on a seeded sample in every run.
 */
public class Prims {
  static byte[] bytes(Value v) {
    TupleValue t = (TupleValue) v.toTuple();
    byte[] b = new byte[t.size()];
    for (int i = 0; i < b.length; i++) b[i] = (byte) ((IntValue) t.elems[i]).val;
    return b;
  }
  static Value tuple(byte[] b) {
    Value[] vs = new Value[b.length];
    for (int i = 0; i < b.length; i++) vs[i] = IntValue.gen(b[i] & 0xff);
    return new TupleValue(vs);
  }
  static byte[] sha512(byte[]... parts) throws Exception {
    MessageDigest md = MessageDigest.getInstance("SHA-512");
    for (byte[] p : parts) md.update(p);
    return md.digest();
  }
  static byte[] hmac(byte[] key, byte[]... msg) throws Exception {
    byte[] k = key.length > 128 ? sha512(key) : key;
    byte[] ip = new byte[128], op = new byte[128];
    for (int i = 0; i < 128; i++) {
      int kb = i < k.length ? k[i] : 0;
      ip[i] = (byte) (kb ^ 0x36);
      op[i] = (byte) (kb ^ 0x5c);
    }
    MessageDigest md = MessageDigest.getInstance("SHA-512");
    md.update(ip);
    for (byte[] p : msg) md.update(p);
    byte[] inner = md.digest();
    return sha512(op, inner);
  }

  @TLAPlusOperator(identifier = "Digest", module = "SHA256", warn = false)
  public static Value sha256(final Value msg) throws Exception {
    return tuple(MessageDigest.getInstance("SHA-256").digest(bytes(msg)));
  }

  @TLAPlusOperator(identifier = "OverridesLoaded", module = "SHA256", warn = false)
  public static Value overridesLoaded() {
    return tlc2.value.impl.BoolValue.ValTrue;
  }

  @TLAPlusOperator(identifier = "Digest", module = "SHA512", warn = false)
  public static Value sha512op(final Value msg) throws Exception {
    return tuple(sha512(bytes(msg)));
  }

  @TLAPlusOperator(identifier = "HmacSha512", module = "HMAC", warn = false)
  public static Value hmacOp(final Value key, final Value msg) throws Exception {
    return tuple(hmac(bytes(key), bytes(msg)));
  }

  @TLAPlusOperator(identifier = "Derive", module = "PBKDF2", warn = false)
  public static Value derive(final Value pw, final Value salt, final Value c, final Value dkLen) throws Exception {
    byte[] P = bytes(pw), S = bytes(salt);
    int iters = ((IntValue) c).val, n = ((IntValue) dkLen).val;
    byte[] out = new byte[n];
    int blocks = (n + 63) / 64;
    for (int i = 1; i <= blocks; i++) {
      byte[] u = hmac(P, S, new byte[] {(byte) (i >>> 24), (byte) (i >>> 16), (byte) (i >>> 8), (byte) i});
      byte[] t = u.clone();
      for (int k = 1; k < iters; k++) {
        u = hmac(P, u);
        for (int j = 0; j < 64; j++) t[j] ^= u[j];
      }
      System.arraycopy(t, 0, out, (i - 1) * 64, Math.min(64, n - (i - 1) * 64));
    }
    return tuple(out);
  }

  /** IndexOf(seq, x): least i with seq[i] = x, 0 if none (Wordlists.tla).  One hash index per sequence object. */
  static final java.util.IdentityHashMap<Object, java.util.HashMap<String, Integer>> IDX = new java.util.IdentityHashMap<>();
  static String key(Value v) {
    TupleValue t = (TupleValue) v.toTuple();
    if (t == null) return null;
    StringBuilder sb = new StringBuilder();
    for (Value e : t.elems) {
      if (!(e instanceof IntValue)) return null;
      sb.append(((IntValue) e).val).append(',');
    }
    return sb.toString();
  }
  @TLAPlusOperator(identifier = "IndexOf", module = "Wordlists", warn = false)
  public static synchronized Value indexOf(final Value seq, final Value x) {
    TupleValue t = (TupleValue) seq.toTuple();
    java.util.HashMap<String, Integer> m = IDX.get(t.elems);
    if (m == null) {
      m = new java.util.HashMap<>();
      for (int i = t.elems.length - 1; i >= 0; i--) {
        String k = key(t.elems[i]);
        if (k == null) throw new RuntimeException("IndexOf override: element is not a tuple of integers");
        m.put(k, i + 1);
      }
      IDX.put(t.elems, m);
    }
    String k = key(x);
    Integer r = k == null ? null : m.get(k);
    return IntValue.gen(r == null ? 0 : r);
  }
}
